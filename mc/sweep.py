"""Optimiser sweep shared by C01, C02, C03, C04, C16 (and the format mapping of C06).

One worker call = one (text, background) pair under all 12 configurations through the public API
(ColorPair.make_readable, tuple spelling), with the multi-phase search wrapped in the harness process to
log the step chain (C04).  Each property applies its own oracle to the record.
"""
import math

from mc.lattice import CFG, NAMED, hex6, pair_lattice
from mc.oracle import ciede2000, css_color, oklab, wcag

_WRAPPED = {"done": False, "ok": False}
_CHAIN = []


def install_chain_logger():
    """Replace optimisation.generate_accessible_color (harness process only) by a logging wrapper."""
    if _WRAPPED["done"]:
        return _WRAPPED["ok"]
    _WRAPPED["done"] = True
    try:
        from cm_colors.core import optimisation as opt
    except Exception:  # noqa
        return False
    orig = getattr(opt, "generate_accessible_color", None)
    if not callable(orig):
        return False

    def logged(text_rgb, bg_rgb, *a, **kw):
        out = orig(text_rgb, bg_rgb, *a, **kw)
        seq = kw.get("delta_e_sequence")
        if seq is None and len(a) >= 4:
            seq = a[3]
        _CHAIN.append((tuple(text_rgb), tuple(bg_rgb), None if seq is None else max(seq), out))
        return out

    logged.__wrapped__ = orig
    opt.generate_accessible_color = logged
    _WRAPPED["ok"] = True
    return True


def run_one(text, bg, mode, large, vr):
    """-> (value, success, chain) through the public API; exceptions are returned as ('EXC', repr)."""
    from cm_colors import ColorPair

    del _CHAIN[:]
    try:
        pair = ColorPair(text, bg, large_text=large)
        res = pair.make_readable(mode=mode, very_readable=vr)
    except Exception as e:  # noqa
        return ("EXC", repr(e), [])
    chain = list(_CHAIN)
    if not (isinstance(res, tuple) and len(res) == 2):
        return ("BAD", repr(res), chain)
    return (res[0], res[1], chain)


def eval_pair(job):
    """One pair under all 12 settings, in a child forked from the pristine worker: the record depends on the pair only
    (and on the fixed order of the 12 settings), never on which pairs the worker handled before."""
    from mc.explore.forked import forked

    status, rec = forked(_eval_pair_here, job)
    if status != "ok":
        raise RuntimeError("pair %r could not be evaluated: %s" % (job, rec))
    return rec


def _eval_pair_here(job):
    text, bg = job[0], job[1]
    install_chain_logger()
    rec = {"text": tuple(text), "bg": tuple(bg), "res": {}}
    for cfg in CFG:
        rec["res"][cfg] = run_one(tuple(text), tuple(bg), *cfg)
    # strict mode once more, now *after* default and relaxed mode ran on the same pair in this process
    rec["strict_again"] = {cfg: run_one(tuple(text), tuple(bg), *cfg) for cfg in CFG if cfg[0] == 0}
    return rec


def is_rgb8(v):
    return (isinstance(v, tuple) and len(v) == 3
            and all(isinstance(x, int) and not isinstance(x, bool) and 0 <= x <= 255 for x in v))


def _case(rec, cfg):
    return {"kind": "pair", "text": list(rec["text"]), "bg": list(rec["bg"]), "mode": cfg[0], "large": cfg[1], "very_readable": cfg[2]}


def _bad_result(rec, cfg, prop_prefix):
    val, ok, _ = rec["res"][cfg]
    if val in ("EXC", "BAD") and not is_rgb8(val):
        return [dict(sig=prop_prefix + "/api_raises_or_malformed", case=_case(rec, cfg), observed=[val, ok],
                     msg="make_readable(%s on %s, cfg=%s) -> %s %s" % (rec["text"], rec["bg"], cfg, val, ok))]
    if not is_rgb8(val) or not isinstance(ok, bool):
        return [dict(sig=prop_prefix + "/malformed_result", case=_case(rec, cfg), observed=[repr(val), repr(ok)],
                     msg="make_readable(%s on %s, cfg=%s) returned (%r, %r) for tuple input" % (rec["text"], rec["bg"], cfg, val, ok))]
    return None


# ------------------------------------------------------------------------------ C01
def judge_c01(rec):
    out, und = [], 0
    for cfg in CFG:
        bad = _bad_result(rec, cfg, "verdict")
        if bad:
            out += bad
            continue
        val, ok, _ = rec["res"][cfg]
        r = wcag.ratio(val, rec["bg"])
        need = wcag.minimum(cfg[1], cfg[2])
        m = wcag.meets(r, need)
        if m is None:
            und += 1
            continue
        if ok != m:
            kind = "reported_fixed_but_fails" if ok else "reported_failed_but_passes"
            out.append(dict(sig="verdict/" + kind, case=_case(rec, cfg), observed=[list(val), ok], expected=m,
                            msg="%s on %s mode=%d large=%s very_readable=%s -> (%s, %s) but ratio of the returned colour is %.4f (minimum %.1f)"
                                % (rec["text"], rec["bg"], cfg[0], cfg[1], cfg[2], val, ok, r, need)))
    return out, und


# ------------------------------------------------------------------------------ C02
def judge_c02(rec):
    out, und = [], 0
    r0 = wcag.ratio(rec["text"], rec["bg"])
    for cfg in CFG:
        bad = _bad_result(rec, cfg, "harm")
        if bad:
            out += bad
            continue
        val, ok, _ = rec["res"][cfg]
        need = wcag.minimum(cfg[1], cfg[2])
        m = wcag.meets(r0, need)
        if m is None:
            und += 1
            continue
        if m:
            if not ok or tuple(val) != rec["text"]:
                out.append(dict(sig="harm/readable_pair_changed_or_failed", case=_case(rec, cfg), observed=[list(val), ok],
                                expected=[list(rec["text"]), True],
                                msg="%s on %s already has ratio %.4f >= %.1f but mode=%d large=%s very_readable=%s returned (%s, %s)"
                                    % (rec["text"], rec["bg"], r0, need, cfg[0], cfg[1], cfg[2], val, ok)))
        else:
            r1 = wcag.ratio(val, rec["bg"])
            if r1 < r0 - 1e-12:
                out.append(dict(sig="harm/contrast_dropped", case=_case(rec, cfg), observed=[list(val), ok, r1], expected=r0,
                                msg="%s on %s: ratio %.4f -> %.4f after make_readable(mode=%d, large=%s, very_readable=%s) = (%s, %s)"
                                    % (rec["text"], rec["bg"], r0, r1, cfg[0], cfg[1], cfg[2], val, ok)))
    return out, und


# ------------------------------------------------------------------------------ C03
def witnesses(text, bg, n=4096):
    """Independent exhaustive scan of the text's own lightness line (oracle OKLCH, per-channel clip):
    for each distinct 8-bit colour, (colour, dE00_oracle to text, ratio to bg).  Only near candidates kept."""
    L0, C, H = oklab.rgb_to_oklch(text)
    out, last = [], None
    for i in range(n + 1):
        c = oklab.oklch_to_rgb((i / n, C, H))
        if c == last:
            continue
        last = c
        de = ciede2000.delta_e(text, c)
        if de <= 1.5:
            out.append((c, de, wcag.ratio(c, bg)))
    return out


def witness_for(wit, need):
    best = None
    for c, de, r in wit:
        if r >= need + 0.05 and (best is None or de < best[1]):
            best = (c, de, r)
    return best


def judge_c03(rec, wit=None):
    """Returns (violations, n_witness_cases)."""
    out, nw = [], 0
    text, bg = rec["text"], rec["bg"]
    r0 = wcag.ratio(text, bg)
    if wit is None:
        wit = witnesses(text, bg)
    for cfg in CFG:
        need = wcag.minimum(cfg[1], cfg[2])
        if r0 >= need:
            continue  # nothing to fix (C02's territory)
        w = witness_for(wit, need)
        if w is None:
            continue
        nw += 1
        bad = _bad_result(rec, cfg, "smallfix")
        if bad:
            out += bad
            continue
        val, ok, _ = rec["res"][cfg]
        if not ok:
            side = "text_lighter_than_bg" if wcag.luminance(text) >= wcag.luminance(bg) else "text_darker_than_bg"
            out.append(dict(sig="smallfix/witness_exists_but_failed", case=_case(rec, cfg), observed=[list(val), ok],
                            expected={"witness": list(w[0]), "dE": w[1], "ratio": w[2]},
                            msg="%s on %s (ratio %.3f, %s) mode=%d large=%s very_readable=%s failed, yet %s is within dE00 %.2f and has ratio %.3f >= %.1f+0.05"
                                % (text, bg, r0, side, cfg[0], cfg[1], cfg[2], w[0], w[1], w[2], need)))
            continue
        de = ciede2000.delta_e(text, val)
        if de > 2.0:
            out.append(dict(sig="smallfix/result_further_than_2", case=_case(rec, cfg), observed=[list(val), de],
                            expected={"witness": list(w[0]), "dE": w[1]},
                            msg="%s on %s mode=%d large=%s very_readable=%s returned %s at dE00 %.3f although %s (dE00 %.2f) clears the minimum"
                                % (text, bg, cfg[0], cfg[1], cfg[2], val, de, w[0], w[1])))
    return out, nw


# ------------------------------------------------------------------------------ C04 (a) + (c)
def judge_c04(rec, chain_ok=True):
    from cm_colors.core.color_metrics import calculate_delta_e_2000 as lib_de

    out = []
    text, bg = rec["text"], rec["bg"]
    for cfg in CFG:
        bad = _bad_result(rec, cfg, "bound")
        if bad:
            out += bad
            continue
        val, ok, chain = rec["res"][cfg]
        if cfg[0] == 0:
            d_lib = lib_de(text, val)
            d_or = ciede2000.delta_e(text, val)
            if d_lib > 5.0 or d_or > 5.05:
                out.append(dict(sig="bound/strict_mode_over_5", case=_case(rec, cfg), observed=[list(val), d_lib, d_or], expected=5.0,
                                msg="strict mode moved %s on %s to %s: dE00 %.4f (library) / %.4f (reference) > 5.0" % (text, bg, val, d_lib, d_or)))
        if cfg[0] == 0 and cfg in rec.get("strict_again", {}):
            val2 = rec["strict_again"][cfg][0]
            if is_rgb8(val2):
                d_lib2, d_or2 = lib_de(text, val2), ciede2000.delta_e(text, val2)
                if d_lib2 > 5.0 or d_or2 > 5.05:
                    out.append(dict(sig="bound/strict_mode_over_5_after_other_modes", case=_case(rec, cfg), observed=[list(val2), d_lib2, d_or2], expected=5.0,
                                    msg="strict mode on %s / %s returns %s (dE00 %.4f) when called after default and relaxed mode ran on the same pair; "
                                        "alone it returns %s" % (text, bg, val2, d_lib2, val)))
        if not chain_ok:
            continue
        # (c) step chain: each logged search starts at the original or at a previous step's output; each output within its schedule
        allowed = {tuple(text)}
        for (cin, cbg, mx, cout) in chain:
            ok_in = tuple(cin) in allowed and tuple(cbg) == tuple(bg)
            if not ok_in:
                out.append(dict(sig="bound/chain_not_contiguous", case=_case(rec, cfg), observed=[list(cin), list(cbg)],
                                msg="mode %d run on %s/%s called the search from %s (bg %s), which is neither the original nor a previous step's result"
                                    % (cfg[0], text, bg, cin, cbg)))
                break
            if not (isinstance(cout, (tuple, list)) and is_rgb8(tuple(cout))):
                out.append(dict(sig="bound/search_returned_invalid", case=_case(rec, cfg), observed=repr(cout),
                                msg="multi-phase search returned %r" % (cout,)))
                break
            if mx is None and cfg[0] != 0:
                allowed.add(tuple(cout))
                continue  # schedule not passed explicitly: its values are not part of the statement for modes 1/2
            lim = 5.0 if mx is None else mx
            d = max(lib_de(tuple(cin), tuple(cout)) - 0.0, ciede2000.delta_e(tuple(cin), tuple(cout)) - 0.05)
            if d > lim:
                out.append(dict(sig="bound/step_exceeds_schedule", case=_case(rec, cfg), observed=[list(cin), list(cout), d], expected=lim,
                                msg="mode %d run on %s/%s: a search step moved %s -> %s, dE00 %.4f > largest tolerance %.2f"
                                    % (cfg[0], text, bg, cin, cout, d, lim)))
                break
            allowed.add(tuple(cout))
        else:
            if chain and tuple(val) not in allowed:
                out.append(dict(sig="bound/result_not_from_chain", case=_case(rec, cfg), observed=list(val),
                                msg="mode %d run on %s/%s returned %s, which no logged search step produced" % (cfg[0], text, bg, val)))
    return out


# ------------------------------------------------------------------------------ C16
def judge_c16(rec):
    out = []
    n1 = n2only = nvr = 0
    for large in (False, True):
        for vr in (False, True):
            v1, ok1, _ = rec["res"][(1, large, vr)]
            v2, ok2, _ = rec["res"][(2, large, vr)]
            if ok1 is True:
                n1 += 1
                if not (ok2 is True and v2 == v1):
                    out.append(dict(sig="monotone/mode2_differs_from_successful_mode1", case=_case(rec, (2, large, vr)),
                                    observed=[repr(v2), ok2], expected=[repr(v1), True],
                                    msg="%s on %s large=%s very_readable=%s: mode 1 -> (%s, True) but mode 2 -> (%s, %s)"
                                        % (rec["text"], rec["bg"], large, vr, v1, v2, ok2)))
            elif ok2 is True:
                n2only += 1
        for mode in (0, 1, 2):
            _, okv, _ = rec["res"][(mode, large, True)]
            vo, oko, _ = rec["res"][(mode, large, False)]
            if okv is True:
                nvr += 1
                if oko is not True:
                    out.append(dict(sig="monotone/very_readable_succeeds_ordinary_fails", case=_case(rec, (mode, large, False)),
                                    observed=[repr(vo), oko],
                                    msg="%s on %s mode=%d large=%s: very_readable succeeded but the ordinary request returned (%s, %s)"
                                        % (rec["text"], rec["bg"], mode, large, vo, oko)))
    return out, (n1, n2only, nvr)


def rec_from_case(case):
    return _eval_pair_here((tuple(case["text"]), tuple(case["bg"])))


def nontrivial(rec):
    """A pair is non-trivial if some configuration actually needs fixing."""
    return wcag.ratio(rec["text"], rec["bg"]) < 7.0


def sweep(ctx, extra_pairs=()):
    """Yield records over the tier's pair lattice (ordered)."""
    pl = [(t, b) for t, b, _ in pair_lattice(ctx.tier, ctx.phase)] + list(extra_pairs)
    install_chain_logger()
    return pl, ctx.pmap(eval_pair, pl, chunksize=4)


# ==============================================================================================
# Spelling layer (C01 b, C02, C06 mapping): the same pairs written in every accepted spelling.
# ==============================================================================================
import re  # noqa: E402

from mc.lattice import bg_spellings, hsl_seed, spellings  # noqa: E402

_SHAPE = {
    "hex": re.compile(r"^#[0-9a-fA-F]{6}$"),
    "rgb": re.compile(r"^rgb\(\s*\d{1,3}\s*,\s*\d{1,3}\s*,\s*\d{1,3}\s*\)$"),
    "hsl": re.compile(r"^hsl\(\s*[-+]?[0-9.]+\s*,\s*[0-9.]+%\s*,\s*[0-9.]+%\s*\)$"),
}


def spelled_jobs(tier, phase):
    """[(text_value, bg_value, text_rgb, bg_rgb, fmt, label)] over a sub-lattice of the pair lattice."""
    pl = pair_lattice(tier, phase)
    stride = 19 if tier == "quick" else 41
    jobs = []
    for i, (t, b, tag) in enumerate(pl):
        if i % stride:
            continue
        for label, val, fmt in spellings(t, b):
            jobs.append((val, tuple(b), t, b, fmt, label))
        for blabel, bval in bg_spellings(b)[1:]:
            jobs.append(("#%02x%02x%02x" % t, bval, t, b, "hex", "bg:" + blabel))
        hs = hsl_seed(t)
        if hs:
            t2, sp = hs
            for label, val, fmt in sp:
                jobs.append((val, tuple(b), t2, b, fmt, label))
    return jobs


def eval_spelled(job):
    from mc.explore.forked import forked

    status, rec = forked(_eval_spelled_here, job)
    if status != "ok":
        raise RuntimeError("spelled job %r could not be evaluated: %s" % (job, rec))
    return rec


def _eval_spelled_here(job):
    from cm_colors import ColorPair

    tval, bval, t, b, fmt, label = job
    rec = {"text_value": tval, "bg_value": bval, "text": tuple(t), "bg": tuple(b), "fmt": fmt, "label": label, "res": {}}
    try:
        p = ColorPair(tval, bval)
        rec["parsed"] = (p.text.rgb, p.bg.rgb)
    except Exception as e:  # noqa
        rec["parsed"] = ("EXC", repr(e))
    for cfg in CFG:
        try:
            res = ColorPair(tval, bval, large_text=cfg[1]).make_readable(mode=cfg[0], very_readable=cfg[2])
            rec["res"][cfg] = (res[0], res[1])
        except Exception as e:  # noqa
            rec["res"][cfg] = ("EXC", repr(e))
    return rec


def _scase(rec, cfg):
    tv, bv = rec["text_value"], rec["bg_value"]
    return {"kind": "spelled", "text_value": list(tv) if isinstance(tv, (tuple, list)) else tv, "text_is_tuple": isinstance(tv, tuple),
            "bg_value": list(bv) if isinstance(bv, (tuple, list)) else bv, "text": list(rec["text"]), "bg": list(rec["bg"]),
            "fmt": rec["fmt"], "label": rec["label"], "mode": cfg[0], "large": cfg[1], "very_readable": cfg[2]}


def spelled_job_from_case(case):
    tv = case["text_value"]
    if isinstance(tv, list):
        tv = tuple(tv) if case.get("text_is_tuple") else list(tv)
    bv = case["bg_value"]
    if isinstance(bv, list):
        bv = tuple(bv)
    return (tv, bv, tuple(case["text"]), tuple(case["bg"]), case["fmt"], case["label"])


def judge_spelled_c01(rec):
    """C01 on the value as a CSS consumer reads it back; also the spelling must denote the intended pair."""
    out, und = [], 0
    if rec["parsed"] != (rec["text"], rec["bg"]):
        return [dict(sig="verdict/spelling_parsed_to_other_pair", case=_scase(rec, CFG[0]), observed=repr(rec["parsed"]),
                     expected=[list(rec["text"]), list(rec["bg"])],
                     msg="ColorPair(%r, %r) holds %r, the spelling denotes %s on %s" % (rec["text_value"], rec["bg_value"], rec["parsed"], rec["text"], rec["bg"]))], 0
    for cfg in CFG:
        val, ok = rec["res"][cfg]
        if val == "EXC":
            out.append(dict(sig="verdict/api_raises_or_malformed", case=_scase(rec, cfg), observed=ok,
                            msg="make_readable(%r on %r, cfg=%s) raised %s" % (rec["text_value"], rec["bg_value"], cfg, ok)))
            continue
        rgb = css_color.read_unique(val) if not isinstance(val, tuple) else (val if is_rgb8(val) else None)
        if rgb is None:
            if isinstance(val, str) and css_color.read_opaque(val) is not None:
                und += 1  # exact rounding tie: a CSS consumer may read either neighbour
                continue
            out.append(dict(sig="verdict/result_not_readable_as_css", case=_scase(rec, cfg), observed=repr(val),
                            msg="make_readable(%r on %r, cfg=%s) returned %r, not an opaque CSS colour" % (rec["text_value"], rec["bg_value"], cfg, val)))
            continue
        r = wcag.ratio(rgb, rec["bg"])
        need = wcag.minimum(cfg[1], cfg[2])
        m = wcag.meets(r, need)
        if m is None:
            und += 1
        elif ok != m:
            kind = "reported_fixed_but_fails" if ok else "reported_failed_but_passes"
            out.append(dict(sig="verdict/" + kind, case=_scase(rec, cfg), observed=[repr(val), ok], expected=m,
                            msg="%r on %r mode=%d large=%s very_readable=%s -> (%r, %s); a CSS consumer reads %s, ratio %.4f (minimum %.1f)"
                                % (rec["text_value"], rec["bg_value"], cfg[0], cfg[1], cfg[2], val, ok, rgb, r, need)))
    return out, und


def judge_spelled_c02(rec):
    out, und = [], 0
    if rec["parsed"] != (rec["text"], rec["bg"]):
        return [], 0  # reported by C01/C07/C13
    r0 = wcag.ratio(rec["text"], rec["bg"])
    for cfg in CFG:
        val, ok = rec["res"][cfg]
        if val == "EXC":
            continue
        need = wcag.minimum(cfg[1], cfg[2])
        m = wcag.meets(r0, need)
        rgb = css_color.read_unique(val) if not isinstance(val, tuple) else (val if is_rgb8(val) else None)
        if m is None or rgb is None:
            und += 1
            continue
        if m:
            if ok is not True or rgb != rec["text"]:
                out.append(dict(sig="harm/readable_pair_changed_or_failed", case=_scase(rec, cfg), observed=[repr(val), ok],
                                expected=[list(rec["text"]), True],
                                msg="%r on %r denotes %s with ratio %.4f >= %.1f but mode=%d large=%s very_readable=%s returned (%r, %s) = %s"
                                    % (rec["text_value"], rec["bg_value"], rec["text"], r0, need, cfg[0], cfg[1], cfg[2], val, ok, rgb)))
        elif wcag.ratio(rgb, rec["bg"]) < r0 - 1e-12:
            out.append(dict(sig="harm/contrast_dropped", case=_scase(rec, cfg), observed=[repr(val), ok], expected=r0,
                            msg="%r on %r: ratio %.4f -> %.4f (returned %r)" % (rec["text_value"], rec["bg_value"], r0, wcag.ratio(rgb, rec["bg"]), val)))
    return out, und


def judge_spelled_c06(rec):
    """Format mapping: the returned value has the documented counterpart of the input's format."""
    out = []
    outcomes = set()
    fmt = rec["fmt"]
    for cfg in CFG:
        val, ok = rec["res"][cfg]
        if val == "EXC":
            out.append(dict(sig="mapping/api_raises", case=_scase(rec, cfg), observed=ok,
                            msg="make_readable(%r on %r, cfg=%s) raised %s" % (rec["text_value"], rec["bg_value"], cfg, ok)))
            continue
        if fmt == "rgb_tuple":
            good = isinstance(val, tuple) and len(val) == 3 and all(type(x) is int and 0 <= x <= 255 for x in val)
        else:
            good = isinstance(val, str) and bool(_SHAPE[fmt].match(val))
        rgb = css_color.read_unique(val) if isinstance(val, str) else (val if is_rgb8(val) else None)
        outcomes.add("unchanged" if rgb == rec["text"] and ok else "fixed" if ok else "failed")
        if not good:
            out.append(dict(sig="mapping/wrong_output_format", case=_scase(rec, cfg), observed=repr(val), expected=fmt,
                            msg="input %r (%s) -> %r, documented output format is %s (success=%s)" % (rec["text_value"], rec["label"], val, fmt, ok)))
    return out, outcomes


def judge_mapping_case(case):
    rec = eval_spelled(spelled_job_from_case(case))
    return judge_spelled_c06(rec)[0]


def run_mapping(ctx):
    jobs = spelled_jobs(ctx.tier, ctx.phase)
    n = 0
    seen_outcomes = {}
    labels = set()
    for rec in ctx.pmap(eval_spelled, jobs, chunksize=2):
        vs, outcomes = judge_spelled_c06(rec)
        ctx.add_violations(vs)
        n += 1
        labels.add(rec["label"])
        for o in outcomes:
            seen_outcomes[(rec["fmt"], o)] = seen_outcomes.get((rec["fmt"], o), 0) + 1
    ctx.sub("format_mapping", states=n, transitions=12 * n, evaluations=12 * n, traces=12 * n, distinct_nontrivial=n,
            exhaustive=True, spellings=sorted(labels), outcomes={"%s/%s" % k: v for k, v in sorted(seen_outcomes.items())})
    if jobs:
        j = jobs[len(jobs) // 2]
        ctx.sample({"subcheck": "format_mapping", "text": repr(j[0]), "bg": repr(j[1]), "documented_format": j[4]})
