"""Writes MANIFEST.json from the table below (kept in one place so it always validates)."""
import json
import os

HOME = os.path.dirname(os.path.dirname(os.path.abspath(__file__)))

# id -> (technique, level text, level note, design ref)
CLAIMED = {
    "C05": (
        "whole-domain explicit enumeration of the real functions against a reference model",
        "Every one of the 2^24 colours (luminance; ratio against black and white), all grey x grey, cube^2 and "
        "named^2 pairs and every float adjacent to each label threshold is executed on the implementation and "
        "compared with an independent WCAG model; the input space of the unary functions is covered completely.",
        "Trusted: mc/oracle/wcag.py (decimal, 50 digits). Ratio of arbitrary pairs is decided on the listed "
        "sub-lattices only (the function is a composition of the exhaustively checked luminance).",
        "DESIGN.md 4/C05",
    ),
}

PENDING_REASON = "check not built yet in this session (planned, see DESIGN.md section 9); not claimed until it runs"


def main():
    checks = []
    for pid in sorted(CLAIMED):
        tech, text, note, ref = CLAIMED[pid]
        checks.append({
            "property_id": pid,
            "quick_cmd": "./check %s --tier quick" % pid,
            "thorough_cmd": "./check %s --tier thorough" % pid,
            "evidence_file": "/verif/evidence/%s.json" % pid,
            "replay_cmd_template": "./check %s --replay {path}" % pid,
            "engine": "mc-python-explorer",
            "level_claimed": {"category": "model_checking", "text": text, "design_ref": ref},
            "level_note": note,
            "technique": tech,
        })
    na = [{"property_id": "C%02d" % i, "reason": PENDING_REASON} for i in range(1, 20) if "C%02d" % i not in CLAIMED]
    doc = {
        "version": 1,
        "setup_cmd": "./check --selftest",
        "hooks": {
            "guard": "CM_COLORS_VERIF",
            "enable": "no source hooks: checks import /repo/src directly (PYTHONPATH) and observe public results; "
                      "seams are replaced in the harness process only",
            "baseline_off_cmd": "cd /repo && /venv/bin/python -m pytest -ra -q -p no:cacheprovider --timeout=900",
            "source_commits": [],
            "add_only": True,
        },
        "engines": [{
            "name": "mc-python-explorer",
            "path": "/verif/mc",
            "serves_properties": sorted(CLAIMED),
            "kind_free_text": "hand-written bounded-exhaustive explorer executing the real implementation: whole-domain "
                              "enumeration, small-scope product/sequence enumeration, history and schedule exploration",
        }],
        "checks": checks,
        "not_applicable": na,
        "notes": "All checks: ./check <ID> --tier quick|thorough; VERIF_SEED selects one of 4 pre-registered lattice phases.",
    }
    with open(os.path.join(HOME, "MANIFEST.json"), "w") as f:
        json.dump(doc, f, indent=1)
    print("MANIFEST.json: %d checks, %d not_applicable" % (len(checks), len(na)))


if __name__ == "__main__":
    main()
