"""Writes MANIFEST.json from the table below (kept in one place so it always validates)."""
import json
import os

HOME = os.path.dirname(os.path.dirname(os.path.abspath(__file__)))

# id -> (technique, level text, level note, design ref)
T_WHOLE = "whole-domain explicit enumeration of the real functions against a reference model"
T_SMALL = "small-scope exhaustive enumeration (every combination over a stated finite alphabet and bound) executed on the implementation"
CLAIMED = {
    "C01": (T_SMALL + "; reference-model oracle (WCAG)",
        "Every (text, background) of a derived threshold-centred pair lattice x all 12 settings, every accepted spelling of a sub-lattice, "
        "and the three observation points are executed and the success flag compared with an independent WCAG verdict on the returned "
        "value as a CSS parser reads it; thorough adds grey x grey and named x named.",
        "Decided on the stated lattices, not on all 2^48 pairs. Also runs the environment-answer exploration of the strategy layer (scripted search "
        "answers, <= 2 deviations); a scripted failure counts only if every scripted answer equals the real routine's. Trusted: mc/oracle/wcag.py, css_color.py.", "DESIGN.md 4/C01"),
    "C02": (T_SMALL + "; relational oracle on exact WCAG ratios",
        "Same lattice and spelling layer as C01: already-readable pairs must come back unchanged with success, all others must not lose contrast.",
        "Lattice-bounded. Trusted: mc/oracle/wcag.py, css_color.py.", "DESIGN.md 4/C02"),
    "C03": (T_SMALL + "; witness found by the harness's own exhaustive scan of the text's lightness line",
        "For every pair of the lattice the harness scans 4097 points of the text's OKLCH lightness line with independent OKLCH / CIEDE2000 / WCAG "
        "models; every (pair, setting) with a witness must succeed in every mode and stay within dE00 2.0.",
        "Witnesses between grid points are not found (such pairs are not judged). Trusted: oklab.py, cielab.py, ciede2000.py, wcag.py.", "DESIGN.md 4/C03"),
    "C04": (T_SMALL + "; harness-side step log of the multi-phase search (attribute replacement, no source hook)",
        "Every mode-0 run of the lattice is measured against the 5.0 cap on the library's and the reference metric; the three documented search "
        "routines are called directly over a tolerance/target/schedule alphabet; every search step inside mode 0/1/2 runs is logged and chained.",
        "Lattice-bounded; step-chain sub-check skipped (reported) if generate_accessible_color is renamed. The environment-answer exploration (all "
        "scripted search answers honouring the documented contract, <= 2 deviations per run) decides the chaining clauses for any contract-honouring routine.", "DESIGN.md 4/C04"),
    "C05": (T_WHOLE,
        "Every one of the 2^24 colours (luminance; ratio against black and white), all grey x grey, cube^2 and named^2 pairs and every float adjacent "
        "to each label threshold is executed on the implementation and compared with an independent WCAG model.",
        "Trusted: mc/oracle/wcag.py (decimal, 50 digits). Ratio of arbitrary pairs is decided on the listed sub-lattices (a composition of the "
        "exhaustively checked luminance).", "DESIGN.md 4/C05"),
    "C06": (T_WHOLE + " + small-scope format-mapping lattice",
        "format_color on every colour of the tier's domain (thorough: all 2^24) x {hex, rgb(), hsl(), tuple}; each output is re-read by the library's "
        "own parser and by a CSS Color 3 reference parser; the spelling x outcome x setting lattice decides the format mapping.",
        "Quick tier covers every colour with a 0/255 channel + greys + 17^3 cube + named; thorough all 2^24. Trusted: css_color.py.", "DESIGN.md 4/C06"),
    "C07": (T_WHOLE + " for hex (2^24 x variants, 4096 x all case patterns) and keywords; " + T_SMALL + " for the infinite functional families",
        "All six-digit and three-digit hex strings, all keywords x case x padding, rgb()/rgba()/hsl()/hsla() over per-position value sweeps, the full "
        "whitespace product at the 8 optional positions and every case pattern of the function names are parsed and compared with a CSS Color 3 "
        "reference parser working in exact rationals.",
        "Infinite decimal expansions are decided up to the stated alphabet; exponent notation and Level 4 syntax out of scope by the statement.", "DESIGN.md 4/C07"),
    "C08": (T_SMALL + " over generated stylesheets (programs) run through the real command; observation-based oracle",
        "Every sequence of <= 2 (thorough 3) rule items over a 28-item alphabet x wrappers x --mode x --premium x --default-bg is run through the real "
        "CLI in a fresh cwd; stdout counts, report cards and the written file (read by an independent tokenizer and var() resolver) must agree with "
        "each other, with the Python API and with WCAG.",
        "Bounded by the item alphabet and sequence length. Two genuine defects (a custom property shared by rules with different backgrounds; an "
        "invalid declaration making serialisation fail) are recorded as known findings, each identified by the exact list of failing "
        "stylesheets+settings (known/*.json); any other failing input fails the check. If the wording of the summary or the markup of the "
        "report changes, affected runs are reported as skipped. Trusted: css_tokens.py, html_tree.py, css_color.py, wcag.py.", "DESIGN.md 4/C08"),
    "C09": (T_SMALL + " over generated stylesheets; structural token-value comparison of input and output",
        "Rule items interleaved with a 20-item passthrough alphabet in every order (<= 2 passthrough around <= 2/3 rule items) x settings, single file and "
        "directory invocation: input bytes/inode/mtime unchanged, only the documented files created, and the normalised token trees of input and "
        "output equal outside the masked colour values.",
        "Bounded by the alphabets. One known finding (invalid declaration drops the output), identified by the exact failing inputs. Comments written "
        "inside an adjusted value must survive; adjusted values must be valid CSS colours. Trusted: css_tokens.py (cross-checked against tinycss2 in selftest).", "DESIGN.md 4/C09"),
    "C10": (T_WHOLE + "; dense grid for the inverse",
        "Forward conversion and round trip of all 2^24 colours against the OKLab reference model, the inverse on a full L x C x H grid, and the safe "
        "variants on all valid inputs of the tier and on an alphabet of finite invalid triples.",
        "Trusted: mc/oracle/oklab.py (published matrices). Inverse judged within one unit on the grid only.", "DESIGN.md 4/C10"),
    "C11": (T_WHOLE + " for Lab; " + T_SMALL + " for CIEDE2000 pairs (unit neighbours of every lattice colour; thorough: of all 2^24)",
        "Lab of all 2^24 colours against a CIE reference model; CIEDE2000 on the 34 published pairs (fed through a harness-side seam), every colour "
        "against its unit-step neighbours, cube^2, near-neutral and hue-wrap-straddling pairs, both argument orders.",
        "Pairs of the 2^48 beyond the listed families are not covered. Trusted: cielab.py, ciede2000.py (validated on the published data).", "DESIGN.md 4/C11"),
    "C12": ("exhaustive enumeration of all operation sequences (entry lists) up to a length bound over an entry alphabet, against the single-pair API as reference model",
        "All lists of length 0..3 (thorough 4) over an 11-entry alphabet x mode x very_readable: same length and order, every valid entry equal to "
        "ColorPair.make_readable alone (computed in a pristine interpreter) with the WCAG label of the returned colour, invalid entries unchanged.",
        "Bounded by alphabet and length. Trusted: wcag.py, css_color.py.", "DESIGN.md 4/C12"),
    "C13": (T_SMALL + "; exact rational source-over blend as oracle",
        "Every (foreground, alpha, opaque background) of cube(4) x 9 alphas x 8 backgrounds in each translucent spelling, and translucent backgrounds, "
        "through ColorPair: composite within 1.5 of the exact blend over the pair's own background, alpha 0/1 exact, readability and fixes on the composite.",
        "Bounded by the alphabets. Trusted: css_color.py.", "DESIGN.md 4/C13"),
    "C14": ("exhaustive enumeration of all strings up to a token-count bound and all sequences up to a length bound over near-miss alphabets",
        "Every string of <= 4 (thorough 5) tokens over a 29-token near-miss CSS alphabet and every tuple/list of length 0..4 (5) over a 21-element "
        "alphabet goes through Color / ColorPair / make_readable / make_readable_bulk: nothing raises, invalid input is reported as the statement says.",
        "Bounded by alphabet and length; nested sequences are outside the statement.", "DESIGN.md 4/C14"),
    "C15": ("explicit-state exploration of operation histories (every sequence up to a depth bound from a pristine forked interpreter) and "
            "stateless pre-emption-bounded exploration of thread schedules under a controlled scheduler (sys.settrace baton), on the real code",
        "Every sequence of <= 2 (thorough 3) operations over an alphabet with colliding arguments is run from a pristine state and each result "
        "compared with the operation alone in a freshly exec'd interpreter; the reference table is recomputed under 5 hash seeds; every "
        "schedule with <= 1 pre-emption (line granularity; thorough also <= 2 at call granularity) of 6-9 thread workloads is executed and "
        "each thread's result compared with its sequential result; a recorded schedule replayed twice must give identical traces.",
        "Scheduling points are trace events, not bytecodes; GIL builds only; bounded by the operation alphabet, depth and pre-emption bound.", "DESIGN.md 4/C15"),
    "C16": (T_SMALL + "; relational oracle between modes / strictness settings",
        "Every pair of the lattice (incl. far-below texts needing several steps) x large x very_readable: mode-1 success implies the identical mode-2 "
        "result; very_readable success implies ordinary success.",
        "Lattice-bounded.", "DESIGN.md 4/C16"),
    "C17": (T_SMALL + " with every side channel owned (fd 1/2, sys.stdout/err, audit hook on file writes, fresh cwd)",
        "Every spelling of the spelling layer x mode x show x save_report, and every bulk list of 1-2 entries x save_report: plain calls are silent and "
        "touch no file; previews/reports never change the result, never raise, and write only the documented report.",
        "Writes observed through Python audit events and directory listings. Bounded by the spelling lattice.", "DESIGN.md 4/C17"),
    "C18": ("explicit-state exploration of directory trees (states) under the transition 'run the command on the directory' applied twice, every "
            "fault placement and every traversal-order permutation; differential oracle against solo runs",
        "Every placement of <= 3 of 4 good stylesheets x every placement of <= 1 (thorough 2) of 5 fault kinds x repeated runs, and all 24 traversal "
        "orders of the 4-file trees (seam: get_css_files): outputs byte-identical to solo runs, bad files reported and skipped, second run idempotent.",
        "Permission faults cannot be produced as root. Bounded by the tree alphabet.", "DESIGN.md 4/C18"),
    "C19": ("exhaustive enumeration of all strings up to length 3 (thorough 4) over a markup alphabet in every user-controlled slot; DOM-skeleton oracle",
        "Every string over a 12-symbol markup alphabet in each of the 10 slots of both report generators, plus end-to-end carriers through the CLI and "
        "save_report: the parsed tree equals the benign report's skeleton and shows the text verbatim after entity decoding.",
        "Bounded by alphabet and length. Trusted: html.parser.", "DESIGN.md 4/C19"),
}

PENDING_REASON = "check not built yet in this session (planned, see DESIGN.md section 9); not claimed until it runs"


def main():
    checks = []
    for pid in sorted(CLAIMED):
        tech, text, note, ref = CLAIMED[pid]
        checks.append({
            "property_id": pid,
            "quick_cmd": "./check %s --tier quick" % pid,
            "thorough_cmd": "./check %s --tier thorough" % pid,
            "evidence_file": "/verif/evidence/%s.json" % pid,
            "replay_cmd_template": "./check %s --replay {path}" % pid,
            "engine": "mc-python-explorer",
            "level_claimed": {"category": "model_checking", "text": text, "design_ref": ref},
            "level_note": note,
            "technique": tech,
        })
    na = [{"property_id": "C%02d" % i, "reason": PENDING_REASON} for i in range(1, 20) if "C%02d" % i not in CLAIMED]
    doc = {
        "version": 1,
        "setup_cmd": "./check --selftest",
        "hooks": {
            "guard": "CM_COLORS_VERIF",
            "enable": "no source hooks: checks import /repo/src directly (PYTHONPATH) and observe public results; "
                      "seams are replaced in the harness process only",
            "baseline_off_cmd": "cd /repo && /venv/bin/python -m pytest -ra -q -p no:cacheprovider --timeout=900",
            "source_commits": [],
            "add_only": True,
        },
        "engines": [{
            "name": "mc-python-explorer",
            "path": "/verif/mc",
            "serves_properties": sorted(CLAIMED),
            "kind_free_text": "hand-written bounded-exhaustive explorer executing the real implementation: whole-domain "
                              "enumeration, small-scope product/sequence enumeration, history and schedule exploration",
        }],
        "checks": checks,
        "not_applicable": na,
        "notes": "All checks: ./check <ID> --tier quick|thorough; VERIF_SEED selects one of 4 pre-registered lattice phases.",
    }
    with open(os.path.join(HOME, "MANIFEST.json"), "w") as f:
        json.dump(doc, f, indent=1)
    print("MANIFEST.json: %d checks, %d not_applicable" % (len(checks), len(na)))


if __name__ == "__main__":
    main()
