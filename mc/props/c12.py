"""C12 - the bulk API is exactly a map of the single-pair API, in order."""
import itertools
import json
import os
import subprocess
import sys

from mc.oracle import css_color, wcag

# entry alphabet: (entry, is_valid, large)
E = [
    (("#777", "#fff"), True),
    (((119, 119, 119), (255, 255, 255), True), True),
    (("hsl(240, 100%, 2%)", "white"), True),
    (("rgb(200, 200, 100)", "rgb(255,255,255)", False), True),
    (("yellow", "white"), True),
    (("black", "white", True), True),
    (("notacolor", "white"), False),
    (("#777", "nope", True), False),
    (("rgba(0,0,0,0.4)", (250, 240, 20)), True),
    (["#777", "#fff"], True),
    (("#8a8a8a", "#ffffff", True), True),
    (("#777", "#fff", True), True),          # same spelling as entry 0, large flag only
    (("#8a8a8a", "#ffffff"), True),          # same spelling as the entry above it, normal size
    (("#777", "#fff", False), True),         # 3-element form of entry 0
    (((1, 1, 1), (0, 0, 0)), True),           # near-black on black ...
    (((1.0, 1.0, 1.0), (0, 0, 0)), True),     # ... and white on black: equal as Python values, different colours
]
SETTINGS = [(m, vr) for m in (0, 1, 2) for vr in (False, True)]

_REF_SCRIPT = r"""
import json, sys
sys.path[:0] = %r
from mc.props.c12 import E, SETTINGS
from cm_colors import ColorPair
out = {}
for i, (e, valid) in enumerate(E):
    if not valid:
        continue
    large = e[2] if len(e) == 3 else False
    for (m, vr) in SETTINGS:
        r = ColorPair(e[0], e[1], large).make_readable(mode=m, very_readable=vr)
        out["%%d/%%d/%%d" %% (i, m, int(vr))] = [list(r[0]) if isinstance(r[0], tuple) else r[0], r[1], isinstance(r[0], tuple)]
print(json.dumps(out))
"""


def reference_table():
    """Single-pair results, each computed in one pristine interpreter that has done nothing else but these calls in
    isolation order (history-independence itself is C15's subject; here the table is the map's right-hand side)."""
    r = subprocess.run([sys.executable, "-c", _REF_SCRIPT % (sys.path[:2],)], capture_output=True, text=True, timeout=600,
                       env=dict(os.environ))
    if r.returncode != 0:
        raise RuntimeError("reference interpreter failed: " + r.stderr[-1500:])
    raw = json.loads(r.stdout)
    tab = {}
    for k, (val, ok, is_t) in raw.items():
        i, m, vr = (int(x) for x in k.split("/"))
        tab[(i, m, bool(vr))] = (tuple(val) if is_t else val, ok)
    return tab


_TAB = {}


def _table():
    if not _TAB:
        _TAB.update(reference_table())
    return _TAB


def _bg_rgb(bg):
    if isinstance(bg, (tuple, list)):
        return tuple(bg)
    return css_color.read_unique(bg)


def judge_list(idx, mode, vr, table=None, container="list"):
    from cm_colors import make_readable_bulk

    table = table or _table()
    entries = [E[i][0] for i in idx]
    case = {"kind": "list", "idx": list(idx), "mode": mode, "very_readable": vr, "container": container}
    try:
        res = make_readable_bulk(tuple(entries) if container == "tuple" else list(entries), mode=mode, very_readable=vr)
    except Exception as e:  # noqa
        return [dict(sig="bulk/raises", case=case, observed=repr(e), msg="make_readable_bulk(%r, mode=%d, very_readable=%s) raised %r" % (entries, mode, vr, e))]
    if container == "list" and len(entries) <= 2 and (mode, vr) == (1, False):
        import copy

        lst = copy.deepcopy(entries)
        snap = copy.deepcopy(lst)
        r1 = make_readable_bulk(lst, mode=mode, very_readable=vr)
        same_after = lst == snap
        r2 = make_readable_bulk(lst, mode=mode, very_readable=vr)
        if not same_after or r1 != res or r2 != res:
            return [dict(sig="bulk/input_list_mutated_or_second_call_differs", case=case, observed=[repr(lst), repr(r1), repr(r2)], expected=repr(res),
                         msg="make_readable_bulk(%r, mode=%d, very_readable=%s): list after the call %r; first call %r, same object again %r"
                             % (entries, mode, vr, lst, r1, r2))]
    if not isinstance(res, list) or len(res) != len(entries):
        return [dict(sig="bulk/length_differs", case=case, observed=repr(res), msg="bulk of %d entries returned %r" % (len(entries), res))]
    out = []
    for pos, (i, r) in enumerate(zip(idx, res)):
        e, valid = E[i]
        if not (isinstance(r, tuple) and len(r) == 2):
            out.append(dict(sig="bulk/malformed_entry", case=case, observed=repr(r), msg="entry %d -> %r" % (pos, r)))
            continue
        col, status = r
        if not valid:
            if col != e[0] or str(status).lower() in ("readable", "very readable"):
                out.append(dict(sig="bulk/invalid_entry_misreported", case=case, observed=repr(r), expected=[e[0], "<no readability claim>"],
                                msg="invalid entry %r at position %d of %r came back as %r" % (e, pos, entries, r)))
            continue
        want_col, _ok = table[(i, mode, vr)]
        if col != want_col or type(col) is not type(want_col):
            out.append(dict(sig="bulk/differs_from_single_pair", case=case, observed=repr(col), expected=repr(want_col),
                            msg="entry %r at position %d of %r (mode=%d, very_readable=%s): bulk %r, ColorPair.make_readable alone %r"
                                % (e, pos, entries, mode, vr, col, want_col)))
            continue
        large = e[2] if len(e) == 3 else False
        rgb = tuple(col) if isinstance(col, tuple) else css_color.read_unique(col)
        bg = _bg_rgb(e[1])
        if rgb is None or bg is None:
            continue
        ratio = wcag.ratio(rgb, bg)
        if wcag.level_is_decidable(ratio, large):
            want = wcag.LABEL[wcag.level(ratio, large)].lower()
            if status != want:
                out.append(dict(sig="bulk/status_not_label_of_returned_colour", case=case, observed=[repr(col), status], expected=want,
                                msg="entry %r at position %d of %r: returned %r labelled %r; ratio %.4f at large=%s => %r"
                                    % (e, pos, entries, col, status, ratio, large, want)))
    return out


def judge_case(case):
    return judge_list(case["idx"], case["mode"], case["very_readable"], None, case.get("container", "list"))


def chunk(job):
    idx, table = job
    out = []
    for m, vr in SETTINGS:
        vs = judge_list(idx, m, vr, table)
        if len(idx) in (2, 3, 17) and (m, vr) in ((0, True), (1, False)):
            vs = vs + judge_list(idx, m, vr, table, "tuple")   # the same entries handed over as a tuple
        if vs and len(out) < 6:
            out += vs
    return len(SETTINGS), len(idx) * len(SETTINGS), out


def run(ctx):
    maxlen = 3 if ctx.quick else 4
    n_e = len(E) if not ctx.quick else len(E)
    ctx.cov["rule"] = (
        "all lists of length 0..%d over an alphabet of %d entries (2- and 3-element, hex / tuple / hsl() / rgb() / keyword / "
        "translucent spellings, already-readable, fixable, unfixable, two invalid ones, a duplicate as a list) x mode x "
        "very_readable; every entry at every position with every neighbour. oracle: same length and order; each valid entry's "
        "colour equals ColorPair.make_readable alone (reference interpreter) and its status is the WCAG label of that colour; "
        "invalid entries unchanged without a readability claim. non-trivial = lists with >= 2 entries." % (maxlen, len(E))
    )
    table = reference_table()
    _TAB.update(table)
    lists = []
    rot = ctx.phase
    order = list(range(len(E)))
    order = order[rot:] + order[:rot]
    # the longest length of the tier is over the first 8 entries of the rotated alphabet (cost), shorter lengths over all
    for k in range(0, maxlen + 1):
        base = order if k < maxlen or k <= 2 else order[:8]
        lists += list(itertools.product(base, repeat=k))
    lists.sort(key=len, reverse=True)
    n = tr = 0
    for cnt, t, vs in ctx.pmap_forked(chunk, [(ix, table) for ix in lists], chunksize=2):
        n += cnt
        tr += t
        ctx.add_violations(vs)
    ctx.sub("lists_x_settings", states=n, transitions=tr, evaluations=n, traces=n, distinct_nontrivial=sum(len(SETTINGS) for ix in lists if len(ix) >= 2),
            exhaustive=True, lists=len(lists), max_length=maxlen, reference_entries=len(table))
    # long lists: lengths around powers of two, built by cycling the alphabet from each starting entry of the tier
    long_lists = []
    starts = order[:3] if ctx.quick else order
    for L in (5, 8, 15, 16, 17, 31, 32, 33, 64, 65):
        for st in starts:
            long_lists.append(tuple(order[(order.index(st) + k) % len(order)] for k in range(L)))
    m = tr2 = 0
    for cnt, t, vs in ctx.pmap_forked(chunk, [(ix, table) for ix in long_lists], chunksize=1):
        m += cnt
        tr2 += t
        ctx.add_violations(vs)
    ctx.sub("long_lists_x_settings", states=m, transitions=tr2, evaluations=m, traces=m, distinct_nontrivial=m, exhaustive=True,
            lengths=[5, 8, 15, 16, 17, 31, 32, 33, 64, 65], lists=len(long_lists))
    ctx.sample({"subcheck": "list", "entries": [repr(E[i][0]) for i in (6, 0, 8)], "mode": 1, "very_readable": False})
    ctx.sample({"subcheck": "list", "entries": [], "mode": 0, "very_readable": True})
