"""C08 - CLI: what cm-colors reports is what it wrote, and every rule is accounted for."""
import itertools

from mc.cli import observe as O
from mc.cli import sheetgen as G
from mc.oracle import css_tokens, wcag

_API_MEMO = {}


def api_result(text, bg, mode, premium):
    from cm_colors import ColorPair

    k = (text, bg, mode, premium)
    if k not in _API_MEMO:
        try:
            _API_MEMO[k] = ColorPair(text, bg).make_readable(mode=mode, very_readable=premium)
        except Exception as e:  # noqa
            _API_MEMO[k] = ("EXC", repr(e))
    return _API_MEMO[k]


def _cause(sheet, idx, item, card_of, ob, eff=None, ignore_drop=False):
    """Structural cause of a report/file disagreement for rule #idx (used only to key known findings).
    card_of: {rule index: its report card}."""
    sel = sheet.rules[idx][0]
    tv = item.last("color")
    tval = tv[1] if tv else ""
    if ob["out_text"] is None and not ignore_drop:
        junk = any(any(isinstance(d, str) and not d.startswith("/*") for d in it.decls) for _, it, _ in sheet.rules)
        if junk and "Can not serialize <ParseError" in ob["res"]["stderr"]:
            return "file_dropped/invalid_declaration_in_reserialised_rule"
        return "file_dropped/" + item.kind
    vn = O.var_name(tval)
    if vn:
        def uses(it2):
            c2 = it2.last("color")
            n2 = O.var_name(c2[1]) if c2 else None
            return bool(n2) and (n2 == vn or n2 in _chain(sheet, vn) or vn in _chain(sheet, n2))

        users = [j for j, (_s, it2, _w) in enumerate(sheet.rules) if uses(it2)]
        users_adj = [j for j in users if j in card_of]
        if len(users_adj) >= 2:
            # the specific mechanism: this rule's written colour, or the colour it was re-tuned from, is another
            # adjusted user's reported result (the shared definition was adjusted once per user)
            others = [O.colour_key(card_of[j]["after"]) for j in users_adj if j != idx]
            mine = card_of.get(idx)
            if (eff is not None and O.colour_key(eff) in others) or (mine and O.colour_key(mine["before"]) in others):
                return "shared_property_readjusted"
            return "shared_property_other/" + item.kind
        if "," in tval:
            return "var_with_fallback"
        return "var/" + item.kind
    if sel in (":root", "html"):
        return "root_html_literal"
    if tv and tv[0] != "color":
        return "property_name_case"
    return "literal/" + item.kind


def _chain(sheet, name):
    out = []
    seen = set()
    while name and name in sheet.defs_css and name not in seen:
        seen.add(name)
        nxt = O.var_name(sheet.defs_css[name])
        if nxt:
            out.append(nxt)
        name = nxt
    return tuple(out)


def judge_sheet(spec, settings, passthrough=()):
    sheet = G.Sheet(spec, passthrough)
    ob = O.run_sheet(sheet.text, settings)
    return judge_obs(sheet, settings, ob)


def judge_obs(sheet, settings, ob):
    mode, premium, dbg = settings
    target = 7.0 if premium else 4.5
    case = {"kind": "sheet", "spec": sheet.describe(), "settings": list(settings)}
    out = []

    def v(sig, msg, **kw):
        out.append(dict(sig=sig, case=case, msg=msg + "  [sheet: %s; settings mode=%s premium=%s default-bg=%s]"
                        % ("+".join("%s@%s" % x for x in sheet.spec), mode, premium, dbg), **kw))

    res = ob["res"]
    if res["exc"] or res["exit_code"] != 0:
        v("cli/raises_or_nonzero", "cm-colors exited %s (%s)" % (res["exit_code"], res["exc"]))
        return out
    # If the wording of the summary or the markup of the report changed (a refactor of presentation, not of behaviour), the
    # harness cannot read the observation points; that is reported as a skipped run, never as a violation.
    so = res["stdout"]
    if not any(k in so for k in ("color pairs", "No changes needed", "No CSS files")):
        return [dict(sig="__skipped__/summary_format_not_understood", case=case, msg="stdout has none of the known summary lines")]
    if ob["counts"]["tuned"] > 0 and ob["cards"] is not None and (
            len(ob["cards"]) == 0 or any(c.get("selector") is None or c.get("after") is None or c.get("before") is None or c.get("bg") is None
                                         for c in ob["cards"])):
        return [dict(sig="__skipped__/report_markup_not_understood", case=case, msg="the report exists but no card could be read from it")]
    defs_in = dict(sheet.defs_css)
    default_bg = dbg or "white"
    coloured = [(i, sel, it) for i, (sel, it, _w) in enumerate(sheet.rules) if it.has_text_colour()]
    cards = ob["cards"] or []
    counts = ob["counts"]
    by_sel_out, defs_out = (O.output_model(ob["out_text"]) if ob["out_text"] is not None else ({}, {}))
    by_sel_in, _ = O.output_model(sheet.text)
    # selectors are compared by token value; several rules may carry the same selector (a base rule and an override)
    key_of = {i: O.sel_key(sel) for i, sel, _it in coloured}
    remaining = {}
    for i, _sel, _it in coloured:
        remaining[key_of[i]] = remaining.get(key_of[i], 0) + 1
    occ = {}
    for i, _sel, _it in coloured:            # position of the rule among the input rules with the same selector
        k = key_of[i]
        occ[i] = len(by_sel_in.get(k, [])) - remaining[k]
        remaining[k] -= 1
    resolved = {}
    for i, sel, it in coloured:
        tdecl, bdecl = it.last("color"), it.last("background-color")
        t_in = O.resolve(tdecl[1], defs_in)
        b_in = O.resolve(bdecl[1], defs_in) if bdecl else default_bg
        resolved[i] = (t_in, b_in)
    # ---- match report cards and 'Could not tune' lines to rules
    for c in cards:
        c["key"] = O.sel_key(c["selector"])
    unused = list(cards)
    card_of = {}

    def take(i, pred):
        for c in unused:
            if c["key"] == key_of[i] and pred(c):
                unused.remove(c)
                card_of[i] = c
                return True
        return False

    for i, _sel, _it in coloured:            # exact: same selector, background and original colour
        t_in, b_in = resolved[i]
        take(i, lambda c: O.colour_key(c["bg"]) == O.colour_key(b_in) and O.colour_key(c["before"]) == O.colour_key(t_in))
    for i, _sel, _it in coloured:            # same selector and background (a shared property re-tuned from an adjusted value)
        if i not in card_of:
            take(i, lambda c: O.colour_key(c["bg"]) == O.colour_key(resolved[i][1]))
    for i, _sel, _it in coloured:
        if i not in card_of and sum(1 for j in key_of if key_of[j] == key_of[i]) == 1:
            take(i, lambda c: True)         # unique selector: whatever the card says belongs to this rule
    listed_keys = [O.sel_key(s) for _f, s in ob["listed"]]
    listed_left = list(listed_keys)
    listed_rules = set()
    for i, _sel, _it in coloured:
        if i not in card_of and key_of[i] in listed_left:
            listed_left.remove(key_of[i])
            listed_rules.add(i)
    # ---- (1) accounting
    if len(cards) != counts["tuned"]:
        v("accounting/cards_vs_adjusted_count", "%d report cards but '%d color pairs adjusted'" % (len(cards), counts["tuned"]))
    if len(listed_keys) != counts["failed"]:
        v("accounting/listed_vs_failed_count", "%d rules listed under 'Could not tune' but '%d need your attention'" % (len(listed_keys), counts["failed"]))
    total = counts["accessible"] + counts["tuned"] + counts["failed"]
    if total != len(coloured):
        missing = [(sel, it.kind) for i, sel, it in coloured if i not in card_of and i not in listed_rules]
        junk = any(any(isinstance(d, str) and not d.startswith("/*") for d in it.decls) for _, it, _ in sheet.rules)
        cause = ("file_dropped/invalid_declaration_in_reserialised_rule"
                 if (ob["out_text"] is None and junk and "Can not serialize <ParseError" in ob["res"]["stderr"])
                 else "property_name_case" if any(it.last("color")[0] != "color" for _i, _s, it in coloured) else "other")
        v("accounting/rules_not_counted_once/" + cause,
          "the three counters add up to %d but %d rules have a text colour (accessible=%d adjusted=%d attention=%d; uncategorised candidates: %s)"
          % (total, len(coloured), counts["accessible"], counts["tuned"], counts["failed"], missing[:4]))
    all_keys = set(key_of.values())
    for c in unused:
        if c["key"] in all_keys:
            v("accounting/rule_in_two_categories", "a second report card (%s, %s -> %s on %s) for a rule that already has one, or a card whose colours "
              "belong to no rule with that selector" % (c["selector"], c["before"], c["after"], c["bg"]))
        else:
            v("accounting/card_for_unknown_rule", "report card for %r, which is not a rule with a text colour" % c["selector"])
    for k in listed_left:
        v("accounting/rule_in_two_categories" if k in all_keys else "accounting/listed_unknown_rule",
          "'Could not tune' lists a selector that is adjusted as well, or that no rule with a text colour carries")

    def rule_decls(table, i):
        rules = table.get(key_of[i], [])
        if len(rules) == len(by_sel_in.get(key_of[i], [])) and 0 <= occ[i] < len(rules):
            return rules[occ[i]][0]
        return None

    def effective(i):
        d = None
        ds = rule_decls(by_sel_out, i)
        if ds is not None:
            d = O.last_decl(ds, "color")
        elif key_of[i] in by_sel_out:
            d = _colour_decl(by_sel_out[key_of[i]])
        return O.resolve(css_tokens.serialize_value(d[2]), defs_out) if d is not None else None

    def effective_bg(i):
        """The rule's background as the written file has it (its own background-color resolved against the written custom
        properties), else the default background.  None when there is no output file or the value cannot be resolved."""
        if ob["out_text"] is None:
            return None
        ds = rule_decls(by_sel_out, i)
        if ds is None:
            return None
        d = O.last_decl(ds, "background-color")
        if d is None:
            return default_bg
        return O.resolve(css_tokens.serialize_value(d[2]), defs_out)

    def bg_property_adjusted(i, it):
        """This rule's background refers to a custom property that the tool rewrote for another, adjusted rule's text."""
        bd = it.last("background-color")
        bn = O.var_name(bd[1]) if bd else None
        if not bn:
            return False
        mine = {bn} | set(_chain(sheet, bn))
        for j, (_s, it2, _w) in enumerate(sheet.rules):
            c2 = it2.last("color")
            n2 = O.var_name(c2[1]) if c2 else None
            if j != i and j in card_of and n2 and (({n2} | set(_chain(sheet, n2))) & mine):
                return True
        return False

    accessible_n = 0
    for i, sel, it in coloured:
        t_in, b_in = resolved[i]
        # the statement speaks about the written file: when the tool rewrote the custom property this rule uses as its
        # background (for another rule's text), the rule's background is the rewritten one
        b_out = effective_bg(i)
        if b_out is not None and O.colour_key(b_out) is not None and O.colour_key(b_out) != O.colour_key(b_in) and bg_property_adjusted(i, it):
            shared_bg = True
            b_in = b_out
        else:
            shared_bg = False
        bg_rgb = O.opaque_rgb(b_in, (255, 255, 255)) if b_in else None
        if i in card_of:
            card = card_of[i]
            after = card["after"]
            cause = None
            # (2a) the written file carries the reported colour
            eff = effective(i) if ob["out_text"] is not None else None
            if eff is None or O.colour_key(eff) is None or O.colour_key(eff) != O.colour_key(after):
                cause = _cause(sheet, i, it, card_of, ob, eff)
                v("reported_not_written/" + cause,
                  "%s reported adjusted %s -> %s, but the written file sets it to %r" % (sel, card["before"], after, eff if ob["out_text"] is not None else "<no output file>"),
                  observed=eff, expected=after)
            # the card must describe this rule's own background
            if O.colour_key(card["bg"]) is not None and O.colour_key(b_in) is not None and O.colour_key(card["bg"]) != O.colour_key(b_in):
                v("reported_wrong_background/" + it.kind, "%s: the report shows background %s, the rule's background is %s" % (sel, card["bg"], b_in))
            # (2b) API agreement and target
            if t_in is not None and b_in is not None and O.colour_key(t_in) is not None and O.colour_key(b_in) is not None:
                api = api_result(t_in, b_in, mode, premium)
                api_rgb = O.opaque_rgb(api[0], bg_rgb) if isinstance(api[0], str) else None
                rep_rgb = O.opaque_rgb(after, bg_rgb)
                if api_rgb is not None and rep_rgb is not None and api_rgb != rep_rgb:
                    # the API disagreement is about what the rule was tuned *from*, whether or not the file was written
                    cause = _cause(sheet, i, it, card_of, ob, eff, ignore_drop=True)
                    v("reported_differs_from_api/" + cause,
                      "%s (%s on %s): reported %s, ColorPair(...).make_readable(mode=%d, very_readable=%s) returns %r"
                      % (sel, t_in, b_in, after, mode, premium, api[0]), observed=after, expected=api[0])
                if rep_rgb is not None and bg_rgb is not None:
                    m = wcag.meets(wcag.ratio(rep_rgb, bg_rgb), target)
                    if m is False:
                        v("reported_below_target/" + (cause or it.kind), "%s: reported colour %s has ratio %.3f against %s, target %.1f"
                          % (sel, after, wcag.ratio(rep_rgb, bg_rgb), b_in, target))
        elif i in listed_rules:
            # (4) listed and left unchanged
            if ob["out_text"] is not None:
                a = rule_decls(by_sel_in, i)
                b = rule_decls(by_sel_out, i)
                # custom-property definitions may legitimately change (another, adjusted rule references them)
                if a is None or b is None or _decl_tree(a, True) != _decl_tree(b, True):
                    v("attention_rule_changed/" + it.kind, "%s needs attention but its declarations changed in the written file" % sel)
                else:
                    # ... and "left unchanged" includes what the rule's own colour resolves to: a custom property rewritten for
                    # another rule must not move a rule that was only listed for attention
                    e_out = effective(i)
                    if t_in is not None and e_out is not None and O.colour_key(t_in) is not None and O.colour_key(e_out) != O.colour_key(t_in):
                        tn = O.var_name(it.last("color")[1])
                        shared = bool(tn) and any(j != i and j in card_of and O.var_name((it2.last("color") or ("", ""))[1]) and
                                                  (({O.var_name(it2.last("color")[1])} | set(_chain(sheet, O.var_name(it2.last("color")[1])))) & ({tn} | set(_chain(sheet, tn))))
                                                  for j, (_s, it2, _w) in enumerate(sheet.rules))
                        v("attention_rule_changed/" + ("shared_property_readjusted" if shared else it.kind),
                          "%s needs attention, yet its text colour is %s in the written file (was %s): the custom property it uses was rewritten" % (sel, e_out, t_in))
        else:
            accessible_n += 1
            # (3) counted as already readable: really meets the target
            # judged on what the written file says (a custom property adjusted for an earlier rule makes later users readable)
            t_eff = t_in
            if ob["out_text"] is not None:
                e2 = effective(i)
                if e2 is not None:
                    t_eff = e2
            t_rgb = O.opaque_rgb(t_eff, bg_rgb) if (t_eff and bg_rgb) else None
            if t_rgb is None or bg_rgb is None:
                if total == len(coloured):
                    v("accessible_but_unreadable_colour/" + it.kind, "%s (%r on %r) was counted as already readable but is not a readable pair of colours" % (sel, t_eff, b_in))
            else:
                m = wcag.meets(wcag.ratio(t_rgb, bg_rgb), target)
                if m is False and total == len(coloured):
                    c2 = _cause(sheet, i, it, card_of, ob, t_eff)
                    if shared_bg:
                        c2 = "shared_property_readjusted"   # counted against the background the property had before it was rewritten
                    v("accessible_below_target/" + (c2 if ("shared_property_readjusted" == c2 or c2.startswith("file_dropped/invalid")) else it.kind), "%s (%s on %s in the written file) counted as already readable, ratio %.3f < %.1f"
                      % (sel, t_eff, b_in, wcag.ratio(t_rgb, bg_rgb), target))
    if total == len(coloured) and accessible_n != counts["accessible"]:
        v("accounting/accessible_count", "%d rules are in neither list but 'already readable' says %d" % (accessible_n, counts["accessible"]))
    return out


def _colour_decl(rules_with_selector):
    """Several rules may share a selector (e.g. two html blocks): the text colour is the last colour declaration among them."""
    d = None
    for decls, _path in rules_with_selector:
        x = O.last_decl(decls, "color")
        if x is not None:
            d = x
    return d


def _decl_tree(decls, skip_custom=False):
    out = []
    for d in decls:
        if skip_custom and d[0] == "decl" and d[1].startswith("--"):
            out.append(("decl", d[1], "<custom property>", d[3]))
        elif d[0] == "decl":
            out.append(("decl", d[1], css_tokens.norm_tokens(d[2]), d[3]))
        elif d[0] == "comment":
            out.append(d)
        else:
            out.append(("junk", css_tokens.norm_tokens(d[1])))
    return out


def judge_case(case):
    spec = [tuple(x) for x in case["spec"]["items"]]
    pt = [tuple(x) for x in case["spec"].get("passthrough", [])]
    return [v for v in judge_sheet(spec, tuple(case["settings"]), pt) if not v["sig"].startswith("__skipped__/")]


def chunk(job):
    spec, settings_list = job
    out, n, rules = [], 0, 0
    sheet = G.Sheet(spec)
    for st in settings_list:
        ob = O.run_sheet(sheet.text, st)
        vs = judge_obs(sheet, st, ob)
        n += 1
        rules += len(sheet.rules)
        if vs and vs[0]["sig"].startswith("__skipped__/"):
            out.append(vs[0])
            continue
        if vs and len(out) < 80:
            out += vs
    return n, rules, out


def sheets(ctx):
    K = G.ORDER
    rot = ctx.phase * 5 % len(K)
    K = K[rot:] + K[:rot]
    fixed = {"root_literal", "html_literal"}
    specs = []
    # singles x every wrapper
    for k in K:
        for w in G.WRAPPERS:
            if k in fixed and w != "none":
                continue
            specs.append(([(k, w)], O.SETTINGS))
    # ordered pairs, unwrapped, all settings; second item wrapped, default settings only
    base = [(1, False, None)]
    for a, b in (G.quick_pairs(K) if ctx.quick else itertools.product(K, repeat=2)):
        if a in fixed and b in fixed and a == b:
            continue
        specs.append(([(a, "none"), (b, "none")], O.SETTINGS if not ctx.quick else [(0, False, None), (1, True, None), (2, False, "#1e1e1e"), (1, False, None)]))
        if b not in fixed:
            specs.append(([(a, "none"), (b, "media")], base))
            if not ctx.quick:
                specs.append(([(a, "none"), (b, "supports")], [(1, True, "#1e1e1e")]))
                specs.append(([(a, "none"), (b, "media_supports")], [(0, False, None), (2, True, None)]))
    # --default-bg in other spellings (named, rgb(), hsl(), upper case): single items, default mode
    for k in K:
        if k in fixed:
            continue
        specs.append(([(k, "none")], [(1, False, "black"), (1, True, "rgb(30, 30, 30)"), (1, False, "hsl(0, 0%, 93%)"), (1, False, "WHITE"), (1, False, "#FFF")]))
    # the recorded known findings that need three rules are exercised in both tiers (so that each listed finding is observed)
    specs.append(([("var_t", "none"), ("var_t", "none"), ("var_t_other_bg", "none")], [(2, True, "#1e1e1e")]))
    specs.append(([("var_t", "none"), ("var_t", "none"), ("star_hack", "none")], [(1, False, None)]))
    if not ctx.quick:
        V = ["var_t", "var_t_other_bg", "var_chained", "var_fallback_defined", "lit_fail", "root_literal", "html_literal", "var_html", "bg_var",
             "star_hack", "upper_prop", "unfixable", "readable", "var_both_root_first", "var_both_html_first", "repeated_after_bg"]
        for tr in itertools.product(V, repeat=3):
            if sum(1 for x in tr if x in fixed) > len({x for x in tr if x in fixed}):
                continue
            specs.append(([(x, "none") for x in tr], [(1, False, None), (2, True, "#1e1e1e"), (0, True, None)]))
    return specs


def run(ctx):
    ctx.cov["rule"] = (
        "every stylesheet built as a sequence of <= %d rule items over a %d-item alphabet (literal / own background / readable / "
        "unfixable / var() direct, shared, chained, with fallback, undefined / !important / repeated / colour in :root and html / "
        "rgb() hsl() keyword rgba() / inherit / upper-case property / variable background / noise / *hack / background only) x wrappers "
        "(@media, @supports, nested) x --mode x --premium x --default-bg, each run through the real command in a fresh cwd; "
        "observation-based oracle on stdout, the report cards and the written file. non-trivial = runs with >= 1 rule with a text colour."
        % (2 if ctx.quick else 3, len(G.ORDER))
    )
    specs = sheets(ctx)
    n = rules = 0
    unreadable = {}
    for cnt, r, vs in ctx.pmap_forked(chunk, specs, chunksize=2):
        n += cnt
        rules += r
        for v in vs:
            if v["sig"].startswith("__skipped__/"):
                unreadable[v["sig"][12:]] = unreadable.get(v["sig"][12:], 0) + 1
        ctx.add_violations([v for v in vs if not v["sig"].startswith("__skipped__/")])
    for k, c in unreadable.items():
        ctx.skip("runs_with_" + k, "%d runs: %s" % (c, k))
    ctx.sub("sheets_x_settings", states=n, transitions=rules, evaluations=n, traces=n, distinct_nontrivial=n, exhaustive=True,
            distinct_sheets=len(specs), rule_items=len(G.ORDER))
    s = G.Sheet([("var_t", "none"), ("var_t_other_bg", "media")])
    ctx.sample({"subcheck": "sheet", "css": s.text, "settings": "mode x premium x default-bg"})
    ctx.assumptions += ["selectors are unique per generated rule so report cards and 'Could not tune' lines map to rules by selector",
                        "the written file is read with mc/oracle/css_tokens.py and the harness's own var() resolver, not with tinycss2"]
