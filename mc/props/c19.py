"""C19 - reports are injection-safe: user text appears only HTML-escaped."""
import itertools
import os
import shutil
import tempfile

from mc.oracle import html_tree

ALPHABET = ["<", ">", "&", '"', "'", "`", "script", " style=", " onerror=", "</div>", "</style>", "x", "\u0338", "\\", "\\074", "\\g<1>"]
BENIGN = "benign"
CLI_SLOTS = ["selector", "file", "bg", "original_text", "tuned_text", "original_level", "new_level"]
API_SLOTS = ["fg", "bg", "tuned_fg", "selector", "file", "original_level", "new_level"]   # level labels: caller-supplied when the generator is used directly


def _in_tmp(fn):
    d = tempfile.mkdtemp(prefix="c19-", dir="/var/tmp")
    cwd = os.getcwd()
    try:
        os.chdir(d)
        return fn(d)
    finally:
        os.chdir(cwd)
        shutil.rmtree(d, ignore_errors=True)


_SCRATCH = {}


def _scratch(fn):
    """Direct generator calls take an explicit output path: one scratch dir per worker process."""
    base = _SCRATCH.get("base")
    if base is None:  # replay / single-case path: private dir, removed at exit
        import atexit

        base = _SCRATCH["base"] = tempfile.mkdtemp(prefix="c19w-", dir="/var/tmp")
        atexit.register(shutil.rmtree, base, True)
    d = os.path.join(base, str(os.getpid()))
    os.makedirs(d, exist_ok=True)
    return fn(d)


def _cli_report(values, ncards=1):
    from cm_colors.cli import html_report

    def go(d):
        pair = {"selector": BENIGN, "file": BENIGN, "bg": BENIGN, "original_text": BENIGN, "tuned_text": BENIGN,
                "original_level": "FAIL", "new_level": "AA"}
        pair.update(values)
        html_report.generate_report([pair] * ncards, output_path=os.path.join(d, "r.html"))
        return open(os.path.join(d, "r.html"), encoding="utf-8").read()

    return _scratch(go)


def _api_report(values, ncards=1):
    from cm_colors.core import visualiser

    def go(d):
        pair = {"fg": BENIGN, "bg": BENIGN, "tuned_fg": BENIGN, "original_level": "FAIL", "new_level": "AA", "selector": BENIGN, "file": BENIGN}
        pair.update(values)
        visualiser.to_html_bulk([pair] * ncards, output_path=os.path.join(d, "r.html"))
        return open(os.path.join(d, "r.html"), encoding="utf-8").read()

    return _scratch(go)


# where each slot's text must be displayed: (class of element whose text is the value, [(class, attr, template)])
_CLI_WHERE = {
    "selector": ("selector", None), "file": ("file-info", None),
    "bg": (None, "background-color: %s;"), "original_text": ("color-code", "color: %s;"), "tuned_text": ("color-code", "color: %s;"),
    "original_level": ("badge", None), "new_level": ("badge", None),
}
_API_WHERE = {
    "selector": ("selector", None), "file": ("file-info", None),
    "bg": (None, "background-color: %s;"), "fg": ("color-code", "color: %s;"), "tuned_fg": ("color-code", "color: %s;"),
    "original_level": ("badge", None), "new_level": ("badge", None),
}
_BASE = {}


def _baseline(gen, slot=None):
    """Skeleton of the report for benign text.  A level label selects the badge's class by its value, so for the level
    slots the benign report is the one with a benign *label* in that slot."""
    key = (gen, slot if slot in ("original_level", "new_level") else None)
    if key not in _BASE:
        values = {key[1]: BENIGN} if key[1] else {}
        html = _cli_report(values) if gen == "cli" else _api_report(values)
        _BASE[key] = html_tree.skeleton(html_tree.events(html))
    return _BASE[key]


def judge_slot(gen, slot, text):
    case = {"kind": "slot", "gen": gen, "slot": slot, "text": text}
    try:
        html = _cli_report({slot: text}) if gen == "cli" else _api_report({slot: text})
    except Exception as e:  # noqa
        return [dict(sig="report/raises", case=case, observed=repr(e), msg="%s report with %s=%r raised %r" % (gen, slot, text, e))]
    return _judge_html(html, _baseline(gen, slot), (_CLI_WHERE if gen == "cli" else _API_WHERE)[slot], text, case,
                       "%s report, slot %s = %r" % (gen, slot, text))


def _judge_html(html, base_skel, where, text, case, what):
    evs = html_tree.events(html)
    out = []
    if html_tree.skeleton(evs) != base_skel:
        sk = html_tree.skeleton(evs)
        i = next((i for i, (a, b) in enumerate(zip(sk, base_skel)) if a != b), min(len(sk), len(base_skel)))
        out.append(dict(sig="report/structure_changed", case=case, observed=repr(sk[i:i + 3]), expected=repr(base_skel[i:i + 3]),
                        msg="%s: element structure differs from the benign report at node %d: %r vs %r" % (what, i, sk[i:i + 2], base_skel[i:i + 2])))
        return out
    cls, style_t = where
    # class-agnostic: the text must be shown verbatim in *some* text node (slots displayed as text) and carried verbatim by
    # *some* attribute value (slots that also reach a style attribute) - a renamed CSS class is not a violation
    if cls and text.strip():
        texts = [e[1] for e in evs if e[0] == "text"]
        squeeze = lambda t: "".join(t.split())  # noqa: E731
        # (a value laid out over several lines / text nodes still shows every character once, in order)
        if not any(g == text or g.strip() == text.strip() for g in texts) and squeeze(text) not in squeeze("".join(texts)):
            near = [g for g in texts if text.strip()[:3] and text.strip()[:3] in g][:3]
            out.append(dict(sig="report/text_not_verbatim", case=case, observed=near, expected=text,
                            msg="%s: the text is not displayed verbatim in any text node (closest: %r)" % (what, near)))
    if style_t and text.strip():
        vals = [v for e in evs if e[0] == "start" for _k, v in e[2] if v]
        if not any(text in v for v in vals):
            out.append(dict(sig="report/style_value_not_verbatim", case=case, observed=[v for v in vals if "color" in v][:2], expected=text,
                            msg="%s: no attribute value carries the text verbatim" % what))
    return out


# ---------------------------------------------------------------- end-to-end carriers
def judge_e2e(kind, payload, _twin=False):
    """Markup carried by values that are still valid CSS / parseable colours, through the public entry points."""
    case = {"kind": "e2e", "carrier": kind, "payload": payload}

    def go(d):
        import contextlib
        import io

        if kind == "cli_selector":
            from cm_colors.cli.main import main

            css = '%s { color: #777; background-color: #fff; }\n' % payload
            open(os.path.join(d, "in.css"), "w", encoding="utf-8").write(css)
            with contextlib.redirect_stdout(io.StringIO()), contextlib.redirect_stderr(io.StringIO()):
                main.main([os.path.join(d, "in.css")], standalone_mode=False)
            import tinycss2

            # the tool displays the selector as tinycss2 re-serialises it (quote style may be normalised)
            shown = tinycss2.serialize(tinycss2.parse_one_rule(css).prelude).strip()
            return "cm_colors_report.html", "cli", {"selector": shown}
        if kind == "cli_filename":
            from cm_colors.cli.main import main

            name = payload + ".css"
            open(os.path.join(d, name), "w", encoding="utf-8").write("a { color: #777; }\n")
            with contextlib.redirect_stdout(io.StringIO()), contextlib.redirect_stderr(io.StringIO()):
                main.main([os.path.join(d, name)], standalone_mode=False)
            return "cm_colors_report.html", "cli", {"file": name}
        if kind == "cli_colour":
            from cm_colors.cli.main import main

            css = "a { color: %s; background-color: white; }\n" % payload
            open(os.path.join(d, "in.css"), "w", encoding="utf-8").write(css)
            with contextlib.redirect_stdout(io.StringIO()), contextlib.redirect_stderr(io.StringIO()):
                main.main([os.path.join(d, "in.css")], standalone_mode=False)
            return "cm_colors_report.html", "cli", {"original_text": None}
        if kind == "bulk_colour":
            from cm_colors import make_readable_bulk

            with contextlib.redirect_stdout(io.StringIO()):
                make_readable_bulk([(payload, "white")], save_report=True)
            return "cm_colors_bulk_report.html", "api", {"fg": payload}
        if kind == "bulk_bg":
            from cm_colors import make_readable_bulk

            with contextlib.redirect_stdout(io.StringIO()):
                make_readable_bulk([("#777", payload)], save_report=True)
            return "cm_colors_bulk_report.html", "api", {"bg": payload}
        raise ValueError(kind)

    def run(d):
        name, gen, slots = go(d)
        p = os.path.join(d, name)
        if not os.path.exists(p):
            return None, gen, slots
        return open(p, encoding="utf-8").read(), gen, slots

    try:
        html, gen, slots = _in_tmp(run)
    except Exception as e:  # noqa
        return [dict(sig="report/e2e_raises", case=case, observed=repr(e), msg="%s with %r raised %r" % (kind, payload, e))], False
    if _twin:
        return html
    if html is None:
        return [], False  # nothing adjusted -> no report (not this property's business)
    base = _baseline(gen)
    if html_tree.skeleton(html_tree.events(html)) != base:
        # the tool may lay out this *shape* of value differently (say, a grouped selector one part per line): compare with the
        # report of the benign twin - same value with the markup-significant characters replaced by letters - instead
        twin = "".join("x" if ch in "<>&" else ch for ch in payload)
        if twin != payload:
            try:
                thtml = _e2e_html(kind, twin)
            except Exception:  # noqa
                thtml = None
            if thtml is not None:
                base = html_tree.skeleton(html_tree.events(thtml))
    out = []
    for slot, text in slots.items():
        where = (_CLI_WHERE if gen == "cli" else _API_WHERE)[slot]
        if text is None:
            where, text = (None, None), ""
        out += _judge_html(html, base, where, text, case, "%s carrying %r" % (kind, payload))
    return out, True


def _e2e_html(kind, payload):
    """The report text of one end-to-end run (None when no report was written); used for benign twins."""
    return judge_e2e(kind, payload, _twin=True)


E2E = {
    "cli_selector": ['a[title="<script>alert(1)</script>"]', "a[data-x='</div><img src=x onerror=alert(1)>']", 'a[title="&lt;b&gt;"]',
                     'a[title="\\"><script>"]', "a[x=\"' style='x\"]", ".a\\<b\\>", "a[t=\"`\"]", 'a[title="</style><script>"]',
                     # grouped / compound selectors: the tool may treat a selector list part by part
                     '.note, a[title="<img src=x onerror=alert(1)>"]', 'a[title="<b>"], .z', 'a[title="<i>,</i>"]',
                     'ul > li[title="<u>"] + li', 'a:not([t="<p>"])', '.a, .b, i[x="&amp;<s>"]'],
    "cli_filename": ["<b>x", "a&amp;b", "\"'><img src=x onerror=1>", "x style=y", "`x`", "<script>alert(1)<", "&lt;b&gt;"],
    "cli_colour": ["119,119,119<b>", '119 119 119"onmouseover="x', "119,119,119</div><script>x</script>", "119,119,119&lt;"],
    "bulk_colour": ["119,119,119<b>", '119 119 119" onerror="x', "119,119,119</div><script>x</script>", "119,119,119&amp;", "119,119,119'`"],
    "bulk_bg": ["255,255,255<b>", '255 255 255" style="x', "255,255,255</style>"],
}


def judge_case(case):
    if case["kind"] == "slot":
        return judge_slot(case["gen"], case["slot"], case["text"])
    return judge_e2e(case["carrier"], case["payload"])[0]


def chunk(job):
    gen, slot, first, depth = job
    out, n = [], 0
    for k in range(0, depth + 1):
        for tail in itertools.product(ALPHABET, repeat=k):
            text = "".join((first,) + tail)
            n += 1
            vs = judge_slot(gen, slot, text)
            if vs and len(out) < 6:
                out += vs
    return n, out


def chunk_e2e(job):
    kind, payload = job
    vs, reached = judge_e2e(kind, payload)
    return vs, reached


def run(ctx):
    maxlen = 3 if ctx.quick else 4
    ctx.cov["rule"] = (
        "every string of length 1..%d over a 12-symbol markup alphabet in each user-controlled slot of both report generators "
        "(generate_report: selector, file, bg, original_text, tuned_text; to_html_bulk: fg, bg, tuned_fg, selector, file), plus "
        "end-to-end carriers that are still valid CSS / parseable colours (selectors, file names, informal colour strings) through "
        "the CLI and save_report. oracle: the parsed tree has the benign report's skeleton and shows the text verbatim after "
        "entity decoding. non-trivial = strings containing a markup metacharacter." % maxlen
    )
    _SCRATCH["base"] = tempfile.mkdtemp(prefix="c19w-", dir="/var/tmp")  # workers fork after this; removed below
    jobs = []
    for gen, slots in (("cli", CLI_SLOTS), ("api", API_SLOTS)):
        for slot in slots:
            for a in ALPHABET:
                jobs.append((gen, slot, a, maxlen - 1))
    n = 0
    for cnt, vs in ctx.pmap(chunk, jobs, chunksize=1):
        n += cnt
        ctx.add_violations(vs)
    per_slot = sum(len(ALPHABET) ** k for k in range(1, maxlen + 1))
    ctx.sub("slots_x_strings", states=n, transitions=n, evaluations=n, traces=n, distinct_nontrivial=n - 10 * maxlen, exhaustive=True,
            strings_per_slot=per_slot, slots=len(CLI_SLOTS) + len(API_SLOTS))
    ctx.sample({"subcheck": "slot", "gen": "cli", "slot": "selector", "text": "<script</div>"})
    ctx.sample({"subcheck": "slot", "gen": "api", "slot": "bg", "text": '" onerror=x'})
    ej = [(k, p) for k, ps in E2E.items() for p in ps]
    m = reached = 0
    for vs, r in ctx.pmap(chunk_e2e, ej, chunksize=1):
        ctx.add_violations(vs)
        m += 1
        reached += bool(r)
    ctx.sub("end_to_end_carriers", states=m, transitions=m, evaluations=m, traces=m, distinct_nontrivial=reached, exhaustive=True, reports_produced=reached)
    ctx.sample({"subcheck": "e2e", "carrier": "cli_selector", "payload": E2E["cli_selector"][0]})
    shutil.rmtree(_SCRATCH.pop("base"), ignore_errors=True)
    ctx.assumptions += ["HTML parsed with html.parser (tags, attribute names, class values, nesting; entities decoded)"]
