"""C03 - a barely perceptible lightness fix, when one exists, is found and stays small."""
from mc import sweep
from mc.lattice import CFG
from mc.oracle import wcag


def eval_with_witness(job):
    rec = sweep.eval_pair(job)
    wit = sweep.witnesses(rec["text"], rec["bg"]) if wcag.ratio(rec["text"], rec["bg"]) < 7.0 else []
    vs, nw = sweep.judge_c03(rec, wit)
    lighter = wcag.luminance(rec["text"]) >= wcag.luminance(rec["bg"])
    return vs, nw, lighter, wcag.luminance(rec["bg"])


def judge_case(case):
    return sweep.judge_c03(sweep.rec_from_case(case))[0]


def run(ctx):
    ctx.cov["rule"] = (
        "pair lattice plus the dark-tinted band (text with 8-bit channels of 1..15 just below a mid-tone background's thresholds) "
        "x 12 settings; for every pair the harness scans the text's own OKLCH lightness line (L = i/4096, "
        "reference conversion with per-channel clip, distinct 8-bit colours) for a witness: dE00 <= 1.5 to the text and "
        "ratio >= minimum + 0.05. Only (pair, setting) cases with a witness are judged: success in that mode and "
        "dE00(original, result) <= 2.0. non-trivial = (pair, setting) cases with a witness."
    )
    from mc.lattice import pair_lattice

    from mc.lattice import dark_tinted_band

    pl = [(t, b) for t, b, tag in pair_lattice(ctx.tier, ctx.phase)]
    have = set(pl)
    pl += [(t, b) for t, b, tag in dark_tinted_band(ctx.tier, ctx.phase) if (t, b) not in have]
    sweep.install_chain_logger()
    n = nw = 0
    sides = {}
    for vs, w, lighter, lb in ctx.pmap(eval_with_witness, pl, chunksize=4):
        ctx.add_violations(vs)
        n += 1
        nw += w
        if w:
            k = ("text_lighter" if lighter else "text_darker") + ("_on_light_bg" if lb > 0.4 else "_on_mid_bg" if lb > 0.1 else "_on_dark_bg")
            sides[k] = sides.get(k, 0) + w
    ctx.sub("witness_cases", states=n, transitions=12 * n, evaluations=12 * n, traces=12 * n, distinct_nontrivial=nw, exhaustive=True,
            witness_cases=nw, witness_cases_by_geometry=sides)
    ctx.sample({"subcheck": "pair", "text": [237, 186, 70], "bg": [115, 83, 215], "note": "text lighter than a background with OKLCH L >= 0.5"})
    ctx.sample({"subcheck": "pair", "text": list(pl[len(pl) // 2][0]), "bg": list(pl[len(pl) // 2][1]), "settings": "all 12"})
    ctx.assumptions += ["witnesses lying between the 4097 grid points are not found; such pairs are simply not judged"]
