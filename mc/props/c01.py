"""C01 - make_readable's success flag is exactly the WCAG verdict on the returned colour."""
from mc import sweep
from mc.lattice import CFG, NAMED_LIST
from mc.oracle import css_color, wcag


def judge_obs_points(job):
    """The three observation points give the same, correct verdict: ColorPair.make_readable,
    make_readable_bulk and optimisation.check_and_fix_contrast (tuple spelling)."""
    from cm_colors import ColorPair, make_readable_bulk
    from cm_colors.core import optimisation as opt

    text, bg = tuple(job[0]), tuple(job[1])
    out, und, n = [], 0, 0
    for cfg in CFG:
        mode, large, vr = cfg
        case = {"kind": "obs", "text": list(text), "bg": list(bg), "mode": mode, "large": large, "very_readable": vr}
        need = wcag.minimum(large, vr)
        try:
            a = ColorPair(text, bg, large_text=large).make_readable(mode=mode, very_readable=vr)
            b = make_readable_bulk([(text, bg, large)], mode=mode, very_readable=vr)[0]
            c = opt.check_and_fix_contrast(text, bg, large, mode, vr) if hasattr(opt, "check_and_fix_contrast") else None
        except Exception as e:  # noqa
            out.append(dict(sig="verdict/api_raises_or_malformed", case=case, observed=repr(e), msg="%s on %s cfg=%s raised %r" % (text, bg, cfg, e)))
            continue
        n += 1
        # bulk: the status must agree with the verdict on the returned colour
        bcol, bstat = b
        rgb = bcol if sweep.is_rgb8(bcol) else None
        if rgb is None:
            out.append(dict(sig="verdict/bulk_malformed", case=case, observed=repr(b), msg="bulk returned %r" % (b,)))
        else:
            r = wcag.ratio(rgb, bg)
            if wcag.level_is_decidable(r, large):
                want = wcag.LABEL[wcag.level(r, large)].lower()
                if bstat != want:
                    out.append(dict(sig="verdict/bulk_status_wrong", case=case, observed=[list(rgb), bstat], expected=want,
                                    msg="bulk: %s on %s large=%s -> %s labelled %r, ratio %.4f => %r" % (text, bg, large, rgb, bstat, r, want)))
            if tuple(bcol) != tuple(a[0]):
                out.append(dict(sig="verdict/bulk_colour_differs_from_single", case=case, observed=[list(bcol), list(a[0])],
                                msg="bulk returned %s, single-pair API %s" % (bcol, a[0])))
        if c is not None:
            ccol, cok = c
            crgb = tuple(ccol) if isinstance(ccol, (tuple, list)) else css_color.read_unique(ccol)
            if crgb is None:
                out.append(dict(sig="verdict/check_and_fix_unreadable_result", case=case, observed=repr(c), msg="check_and_fix_contrast returned %r" % (c,)))
            else:
                m = wcag.meets(wcag.ratio(crgb, bg), need)
                if m is None:
                    und += 1
                elif cok != m:
                    out.append(dict(sig="verdict/check_and_fix_flag_wrong", case=case, observed=[repr(ccol), cok], expected=m,
                                    msg="check_and_fix_contrast(%s,%s,large=%s,mode=%d,premium=%s) -> (%r,%s); ratio %.4f, minimum %.1f"
                                        % (text, bg, large, mode, vr, ccol, cok, wcag.ratio(crgb, bg), need)))
                if (crgb, cok) != (tuple(a[0]), a[1]):
                    out.append(dict(sig="verdict/observation_points_disagree", case=case, observed=[repr(c), repr(a)],
                                    msg="check_and_fix_contrast -> %r but make_readable -> %r" % (c, a)))
    return n, out, und


def judge_case(case):
    k = case["kind"]
    if k == "pair":
        return sweep.judge_c01(sweep.rec_from_case(case))[0]
    if k == "spelled":
        return sweep.judge_spelled_c01(sweep.eval_spelled(sweep.spelled_job_from_case(case)))[0]
    if k == "envx":
        from mc.explore import envx_run

        return envx_run.replay("C01", case)
    if k == "obs":
        return judge_obs_points((case["text"], case["bg"]))[1]
    raise ValueError(k)


def grey_pairs(step, phase):
    return [((i, i, i), (j, j, j)) for i in range(phase % step, 256, step) for j in range((phase // 2) % step, 256, step)]


def run(ctx):
    ctx.cov["rule"] = (
        "every (text, background) of the derived pair lattice (threshold bands, colours adjacent to 3/4.5/7 on both sides, "
        "far-below, text = bg; light/mid/dark/chromatic backgrounds) x all 12 (mode, large_text, very_readable) through "
        "ColorPair.make_readable; the spelling layer; the same pairs through make_readable_bulk and check_and_fix_contrast; "
        "thorough adds grey x grey and named x named. oracle: success == (WCAG ratio of the value as CSS reads it >= the "
        "minimum from the statement's table). non-trivial = pairs below 7.0 (some configuration needs fixing)."
    )
    extra = []
    if not ctx.quick:
        extra = grey_pairs(4, ctx.phase)
    pl, it = sweep.sweep(ctx, extra)
    n = nt = und = 0
    flags = {}
    for rec in it:
        vs, u = sweep.judge_c01(rec)
        ctx.add_violations(vs)
        und += u
        n += 1
        nt += sweep.nontrivial(rec)
        for cfg in CFG:
            k = (cfg[1], cfg[2], rec["res"][cfg][1])
            flags[k] = flags.get(k, 0) + 1
    ctx.sub("pair_lattice_x_12_settings", states=n, transitions=12 * n, evaluations=12 * n, traces=12 * n, distinct_nontrivial=nt,
            undecidable=und, exhaustive=True, extra_grey_pairs=len(extra),
            outcomes={"large=%s,very=%s,success=%s" % k: v for k, v in sorted(flags.items(), key=str)})
    ctx.sample({"subcheck": "pair", "text": list(pl[len(pl) // 3][0]), "bg": list(pl[len(pl) // 3][1]), "settings": "all 12"})

    jobs = sweep.spelled_jobs(ctx.tier, ctx.phase)
    m = und = 0
    for rec in ctx.pmap(sweep.eval_spelled, jobs, chunksize=2):
        vs, u = sweep.judge_spelled_c01(rec)
        ctx.add_violations(vs)
        und += u
        m += 1
    ctx.sub("spelling_layer", states=m, transitions=12 * m, evaluations=12 * m, traces=12 * m, distinct_nontrivial=m, undecidable=und, exhaustive=True)
    ctx.sample({"subcheck": "spelled", "text": repr(jobs[len(jobs) // 2][0]), "bg": repr(jobs[len(jobs) // 2][1])})

    stride = 7 if ctx.quick else 5
    sub = pl[::stride]
    k = und = 0
    for cnt, vs, u in ctx.pmap_forked(judge_obs_points, sub, chunksize=2):
        ctx.add_violations(vs)
        k += cnt
        und += u
    ctx.sub("three_observation_points", states=len(sub), transitions=3 * k, evaluations=k, traces=3 * k, distinct_nontrivial=len(sub),
            undecidable=und, exhaustive=True)

    if not ctx.quick:
        named = [v for _, v in NAMED_LIST]
        jobs = [(a, b) for a in named for b in named]
        q = und = 0
        for res in ctx.pmap_forked(named_pair, jobs, chunksize=16):
            vs, u = res
            ctx.add_violations(vs)
            und += u
            q += 1
        ctx.sub("named_x_named_mode1", states=q, transitions=4 * q, evaluations=4 * q, traces=4 * q, distinct_nontrivial=q, undecidable=und, exhaustive=True)
    from mc.explore import envx_run

    envx_run.run(ctx, "C01")
    ctx.assumptions += ["minimum table taken from the property text; ratios within 1e-9 of a threshold are not judged (count: undecidable)"]


def named_pair(job):
    """named x named, mode 1 only, x large x very_readable."""
    text, bg = job
    rec = {"text": tuple(text), "bg": tuple(bg), "res": {}}
    out, und = [], 0
    for large in (False, True):
        for vr in (False, True):
            val, ok, _ = sweep.run_one(tuple(text), tuple(bg), 1, large, vr)
            rec["res"][(1, large, vr)] = (val, ok, [])
            if not sweep.is_rgb8(val) or not isinstance(ok, bool):
                out.append(dict(sig="verdict/api_raises_or_malformed", case=sweep._case(rec, (1, large, vr)), observed=[repr(val), repr(ok)],
                                msg="make_readable(%s on %s) -> %r %r" % (text, bg, val, ok)))
                continue
            m = wcag.meets(wcag.ratio(val, bg), wcag.minimum(large, vr))
            if m is None:
                und += 1
            elif m != ok:
                out.append(dict(sig="verdict/" + ("reported_fixed_but_fails" if ok else "reported_failed_but_passes"),
                                case=sweep._case(rec, (1, large, vr)), observed=[list(val), ok], expected=m,
                                msg="%s on %s mode=1 large=%s very_readable=%s -> (%s, %s), ratio %.4f" % (text, bg, large, vr, val, ok, wcag.ratio(val, bg))))
    return out, und
