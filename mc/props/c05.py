"""C05 - luminance, contrast ratio and readability labels are exactly WCAG 2.

Whole-domain enumeration of the real functions against mc/oracle/wcag.py.
"""
import math

from mc.lattice import GREY, NAMED_LIST, cube, BLACK, WHITE
from mc.oracle import wcag

LUM_TOL = 1e-12
RATIO_TOL = 1e-10
THRESH = (3.0, 4.5, 7.0)


def _lib():
    from cm_colors.core import contrast
    from cm_colors import ColorPair, make_readable_bulk

    return contrast, ColorPair, make_readable_bulk


# ---------------------------------------------------------------- single-case judges
def judge_lum(rgb):
    contrast, _, _ = _lib()
    rgb = tuple(rgb)
    got = contrast.calculate_relative_luminance(rgb)
    want = wcag.luminance(rgb)
    if not (isinstance(got, float) and abs(got - want) <= LUM_TOL):
        return [dict(sig="luminance/differs_from_wcag", case={"kind": "lum", "rgb": list(rgb)},
                     observed=got, expected=want,
                     msg="relative luminance of %s is %r, WCAG gives %r" % (rgb, got, want))]
    return []


def judge_ratio(a, b):
    contrast, _, _ = _lib()
    a, b = tuple(a), tuple(b)
    case = {"kind": "ratio", "a": list(a), "b": list(b)}
    out = []
    got = contrast.calculate_contrast_ratio(a, b)
    rev = contrast.calculate_contrast_ratio(b, a)
    want = wcag.ratio(a, b)

    def v(sig, msg, exp=want):
        out.append(dict(sig="ratio/" + sig, case=case, observed=[got, rev], expected=exp, msg=msg))

    if not (isinstance(got, float) and math.isfinite(got)):
        v("not_finite", "ratio(%s,%s) = %r" % (a, b, got))
        return out
    if abs(got - want) > RATIO_TOL:
        v("differs_from_wcag", "ratio(%s,%s) = %r, WCAG gives %r" % (a, b, got, want))
    if got != rev:
        v("asymmetric", "ratio(%s,%s) = %r but ratio(%s,%s) = %r" % (a, b, got, b, a, rev))
    if not (1.0 <= got <= 21.0 + 1e-12):
        v("out_of_range", "ratio(%s,%s) = %r outside [1,21]" % (a, b, got))
    if a == b and got != 1.0:
        v("equal_not_one", "ratio of %s with itself = %r" % (a, got), 1.0)
    bw = {a, b} == {BLACK, WHITE}
    if got >= 21.0 - 1e-9 and not bw:
        v("21_not_black_white", "ratio(%s,%s) = %r reaches 21" % (a, b, got))
    if bw and abs(got - 21.0) > 1e-9:
        v("black_white_not_21", "black/white ratio = %r" % got, 21.0)
    return out


def judge_level(ratio, large):
    contrast, _, _ = _lib()
    got = contrast.get_contrast_level(ratio, large)
    want = wcag.level(ratio, large)
    if got != want:
        return [dict(sig="label/level_function", case={"kind": "level", "ratio": repr(ratio), "large": large},
                     observed=got, expected=want,
                     msg="get_contrast_level(%r, large=%s) = %r, WCAG: %r" % (ratio, large, got, want))]
    return []


def judge_pair_labels(a, b, large, bulk=False):
    """get_wcag_level / ColorPair.is_readable (/ bulk status) on a real 8-bit pair."""
    contrast, ColorPair, make_readable_bulk = _lib()
    a, b = tuple(a), tuple(b)
    r = wcag.ratio(a, b)
    if not wcag.level_is_decidable(r, large):
        return None
    want = wcag.level(r, large)
    case = {"kind": "pair_labels", "a": list(a), "b": list(b), "large": large, "bulk": bulk}
    out = []
    got = contrast.get_wcag_level(a, b, large)
    if got != want:
        out.append(dict(sig="label/get_wcag_level", case=case, observed=got, expected=want,
                        msg="get_wcag_level(%s,%s,large=%s) = %r, ratio %.6f => %r" % (a, b, large, got, r, want)))
    got = ColorPair(a, b, large_text=large).is_readable
    if got != wcag.LABEL[want]:
        out.append(dict(sig="label/is_readable", case=case, observed=got, expected=wcag.LABEL[want],
                        msg="ColorPair(%s,%s,large=%s).is_readable = %r, ratio %.6f => %r"
                            % (a, b, large, got, r, wcag.LABEL[want])))
    if bulk:
        res = make_readable_bulk([(a, b, large)])
        col, status = res[0]
        ok = isinstance(col, tuple) and len(col) == 3 and all(isinstance(x, int) and 0 <= x <= 255 for x in col)
        if ok:
            r2 = wcag.ratio(col, b)
            if wcag.level_is_decidable(r2, large):
                want2 = wcag.LABEL[wcag.level(r2, large)].lower()
                if status != want2:
                    out.append(dict(sig="label/bulk_status", case=case, observed=[list(col), status], expected=want2,
                                    msg="bulk status for %s on %s large=%s: returned %s labelled %r, ratio %.6f => %r"
                                        % (a, b, large, col, status, r2, want2)))
    return out


BULK_PAIRS = [((136, 136, 136), (255, 255, 255)), ((118, 118, 118), (255, 255, 255)), ((89, 89, 89), (255, 255, 255)),
              ((150, 150, 150), (0, 0, 0)), ((95, 95, 95), (0, 0, 0))]


def bulk_entries():
    """Entry shapes for the sequence sub-check: (text, bg), (text, bg, True), (text, bg, False) as tuples and as hex strings."""
    out = []
    for a, b in BULK_PAIRS:
        out += [[list(a), list(b)], [list(a), list(b), True], [list(a), list(b), False]]
    a, b = BULK_PAIRS[1]
    ha, hb = "#%02x%02x%02x" % a, "#%02x%02x%02x" % b
    out += [[ha, hb], [ha, hb, True]]
    return out


def judge_bulk_seq(entries):
    """Each status of one bulk call must be the label of the colour returned for that entry, at that entry's own text size."""
    from mc.oracle import css_color

    _, _, make_readable_bulk = _lib()
    call = [tuple(tuple(x) if isinstance(x, list) else x for x in e) for e in entries]
    case = {"kind": "bulk_seq", "entries": entries}
    res = make_readable_bulk(call)
    out = []
    if not (isinstance(res, list) and len(res) == len(call)):
        return [dict(sig="label/bulk_sequence_shape", case=case, observed=repr(res)[:200], expected="%d results" % len(call),
                     msg="make_readable_bulk(%r) returned %r" % (call, res))]
    for i, (e, r) in enumerate(zip(call, res)):
        large = bool(e[2]) if len(e) == 3 else False
        col, status = r
        rgb = col if isinstance(col, tuple) else css_color.read_unique(col)
        bg = e[1] if isinstance(e[1], tuple) else css_color.read_unique(e[1])
        if rgb is None:
            continue
        r2 = wcag.ratio(tuple(rgb), tuple(bg))
        if not wcag.level_is_decidable(r2, large):
            continue
        want = wcag.LABEL[wcag.level(r2, large)].lower()
        if status != want:
            out.append(dict(sig="label/bulk_status_in_sequence", case=case, observed=[repr(col), status], expected=want,
                            msg="entry %d %r of make_readable_bulk(%r): returned %r labelled %r; ratio %.4f at large=%s => %r"
                                % (i, e, call, col, status, r2, large, want)))
    return out


def chunk_bulk_seq(entries):
    return 1, judge_bulk_seq(entries), 0


def judge_case(case):
    k = case["kind"]
    if k == "bulk_seq":
        return judge_bulk_seq(case["entries"])
    if k == "lum":
        return judge_lum(case["rgb"])
    if k == "ratio":
        return judge_ratio(case["a"], case["b"])
    if k == "level":
        return judge_level(float(case["ratio"]), case["large"])
    if k == "pair_labels":
        return judge_pair_labels(case["a"], case["b"], case["large"], case.get("bulk", False)) or []
    raise ValueError(k)


# ---------------------------------------------------------------- chunk workers
def _near_update(near, r, a, b):
    """Keep, per threshold and side, the pair whose ratio is closest to the threshold."""
    for t in THRESH:
        d = r - t
        if -0.05 < d < 0.05:
            key = (t, d >= 0)
            cur = near.get(key)
            if cur is None or abs(d) < abs(cur[0]):
                near[key] = (d, a, b)


def chunk_lum_and_bw(r):
    """All 65,536 colours with red = r: luminance, and ratio against black and white."""
    from cm_colors.core.contrast import calculate_relative_luminance as lum, calculate_contrast_ratio as cr

    viol, near = [], {}
    LIN = wcag.LIN
    n = 0
    for g in range(256):
        base = wcag.WR * LIN[r] + wcag.WG * LIN[g]
        for b in range(256):
            c = (r, g, b)
            want = base + wcag.WB * LIN[b]
            got = lum(c)
            if not (abs(got - want) <= LUM_TOL):
                if len(viol) < 4:
                    viol += judge_lum(c) or [dict(sig="luminance/differs_from_wcag", case={"kind": "lum", "rgb": list(c)},
                                                   msg="luminance %r vs %r" % (got, want))]
            # ratio against white and black: expected value from the oracle's luminance
            ww = 1.05 / (want + 0.05)
            wb = (want + 0.05) / 0.05
            gw, gb = cr(c, WHITE), cr(c, BLACK)
            if (abs(gw - ww) > RATIO_TOL or abs(gb - wb) > RATIO_TOL or gw != cr(WHITE, c) or gb != cr(BLACK, c)
                    or not 1.0 <= gw <= 21.0 + 1e-12 or not 1.0 <= gb <= 21.0 + 1e-12
                    or (gw >= 21 - 1e-9 and c != BLACK) or (gb >= 21 - 1e-9 and c != WHITE)):
                if len(viol) < 8:
                    viol += judge_ratio(c, WHITE) + judge_ratio(c, BLACK)
            _near_update(near, ww, c, WHITE)
            _near_update(near, wb, c, BLACK)
            n += 1
    return n, viol, near


def chunk_pairs(args):
    """Ratio checks on an explicit list of pairs (grey x grey rows, cube^2 rows, named^2 rows)."""
    a, others = args
    viol, near = [], {}
    for b in others:
        vs = judge_ratio(a, b)
        if vs and len(viol) < 8:
            viol += vs
        _near_update(near, wcag.ratio(a, b), a, b)
    return len(others), viol, near


def chunk_grey_labels(i):
    viol, n, und = [], 0, 0
    a = (i, i, i)
    for j in range(256):
        for large in (False, True):
            vs = judge_pair_labels(a, (j, j, j), large)
            if vs is None:
                und += 1
                continue
            n += 1
            if vs and len(viol) < 8:
                viol += vs
    return n, viol, und


def chunk_label_bulk(args):
    a, b, large = args
    vs = judge_pair_labels(a, b, large, bulk=True)
    return (0, [], 1) if vs is None else (1, vs, 0)


def _merge_near(dst, src):
    for k, v in src.items():
        cur = dst.get(k)
        if cur is None or abs(v[0]) < abs(cur[0]):
            dst[k] = v


def level_floats():
    xs = [0.0, 1.0, 2.99, 21.0, 25.0, float("inf")]
    for t in THRESH:
        x = t
        xs.append(t)
        up, dn = t, t
        for _ in range(3):
            up = math.nextafter(up, math.inf)
            dn = math.nextafter(dn, -math.inf)
            xs += [up, dn]
        xs += [t - 1e-9, t + 1e-9, t - 0.01, t + 0.01]
    return xs


def run(ctx):
    ctx.cov["rule"] = (
        "whole-domain enumeration: luminance of all 2^24 colours; ratio of every colour against black and "
        "white, all grey x grey, cube^2 and named^2 pairs; labels on every float adjacent to each threshold "
        "and on all grey x grey pairs x large; bulk status on the real pairs closest to each threshold. "
        "non-trivial = distinct inputs whose reference value is not a boundary constant (all of them)."
    )
    near = {}
    # (a) luminance + ratio vs black/white, all 2^24 colours
    n = 0
    for cnt, viol, nr in ctx.pmap_chunks("mc.props.c05", "chunk_lum_and_bw", list(range(256))):
        n += cnt
        ctx.add_violations(viol)
        _merge_near(near, nr)
    ctx.sub("luminance_all_2^24", states=n, transitions=n, evaluations=n, traces=n, distinct_nontrivial=n, exhaustive=True)
    ctx.sub("ratio_vs_black_white_all_2^24", states=2 * n, transitions=4 * n, evaluations=2 * n, traces=2 * n,
            distinct_nontrivial=2 * n - 2, exhaustive=True)
    ctx.sample({"subcheck": "luminance", "rgb": [18, 52, 86], "reference": wcag.luminance((18, 52, 86))})

    # (b) grey x grey, cube^2, named^2
    k = 6 if ctx.quick else 9
    cb = cube(k, offset=ctx.phase * 7)
    named = [v for _, v in NAMED_LIST]
    jobs = [(a, GREY) for a in GREY] + [(a, cb) for a in cb] + [(a, named) for a in named]
    m = 0
    for cnt, viol, nr in ctx.pmap(chunk_pairs, jobs, chunksize=8):
        m += cnt
        ctx.add_violations(viol)
        _merge_near(near, nr)
    ctx.sub("ratio_grey2_cube2_named2", states=m, transitions=2 * m, evaluations=m, traces=m,
            distinct_nontrivial=m - len(GREY) - len(cb) - len(named), exhaustive=True, cube_k=k)
    ctx.sample({"subcheck": "ratio", "a": [119, 119, 119], "b": [255, 255, 255],
                "reference": wcag.ratio((119, 119, 119), (255, 255, 255))})

    # (c) labels: floats around thresholds
    xs = level_floats()
    nl = 0
    for x in xs:
        for large in (False, True):
            ctx.add_violations(judge_level(x, large))
            nl += 1
    ctx.sub("level_function_floats", states=nl, transitions=nl, evaluations=nl, traces=nl, distinct_nontrivial=nl,
            exhaustive=True)
    ctx.sample({"subcheck": "level", "ratio": repr(math.nextafter(4.5, 0)), "large": False, "reference": "FAIL"})
    # labels on all grey x grey x large
    ng = und = 0
    for cnt, viol, u in ctx.pmap(chunk_grey_labels, range(256)):
        ng += cnt
        und += u
        ctx.add_violations(viol)
    ctx.sub("labels_grey2", states=ng, transitions=2 * ng, evaluations=ng, traces=ng, distinct_nontrivial=ng,
            undecidable=und, exhaustive=True)
    # labels + bulk status on the real pairs closest to each threshold (found by the scans above)
    jobs = []
    for (t, above), (d, a, b) in sorted(near.items()):
        for large in (False, True):
            jobs.append((a, b, large))
            jobs.append((b, a, large))
        ctx.sample({"subcheck": "nearest_pair", "threshold": t, "above": above, "distance": d, "a": list(a), "b": list(b)}, cap=20)
    nb = und = 0
    for cnt, viol, u in ctx.pmap(chunk_label_bulk, jobs):
        nb += cnt
        und += u
        ctx.add_violations(viol)
    ctx.sub("labels_bulk_nearest_pairs", states=nb, transitions=3 * nb, evaluations=nb, traces=nb,
            distinct_nontrivial=nb, undecidable=und, exhaustive=True)
    # bulk status inside a list: every ordered sequence of entry shapes up to the tier's length (a status must not depend
    # on the entries around it - in particular not on an earlier entry's large flag)
    import itertools

    E = bulk_entries()
    depth = 2 if ctx.quick else 3
    seqs = [list(s) for d in range(1, depth + 1) for s in itertools.product(E, repeat=d)]
    nq = 0
    for cnt, viol, _u in ctx.pmap(chunk_bulk_seq, seqs, chunksize=16):
        nq += cnt
        ctx.add_violations(viol)
    ctx.sub("labels_bulk_sequences", states=nq, transitions=sum(len(s) for s in seqs), evaluations=nq, traces=nq,
            distinct_nontrivial=nq, exhaustive=True, entry_alphabet=len(E), max_length=depth)
    ctx.sample({"subcheck": "bulk_sequence", "entries": seqs[len(seqs) // 2]})
    ctx.cov["nearest_threshold_distance"] = min(abs(v[0]) for v in near.values()) if near else None
    ctx.assumptions += [
        "reference linearisation table computed with decimal at 50 digits; sums in binary64",
        "tolerances: luminance 1e-12, ratio 1e-10; thresholds judged outside a 1e-9 dead band",
    ]
