"""C10 - OKLCH conversion matches the OKLab definition; lossless on all 8-bit colours."""
import math

from mc.lattice import cube
from mc.oracle import oklab

FWD_TOL = 1e-9


def _cv():
    from cm_colors.core import conversions

    return conversions


def _is_rgb8(v):
    return (isinstance(v, tuple) and len(v) == 3
            and all(isinstance(x, int) and not isinstance(x, bool) and 0 <= x <= 255 for x in v))


def judge_forward(rgb):
    cv = _cv()
    rgb = tuple(rgb)
    case = {"kind": "forward", "rgb": list(rgb)}
    out = []
    try:
        got = cv.rgb_to_oklch(rgb)
        L, C, H = got
    except Exception as e:  # noqa
        return [dict(sig="forward/raises", case=case, observed=repr(e), msg="rgb_to_oklch(%s) raised %r" % (rgb, e))]
    oL, oa, ob = oklab.rgb_to_oklab(rgb)
    if not all(isinstance(x, (int, float)) and math.isfinite(x) for x in (L, C, H)):
        return [dict(sig="forward/not_finite", case=case, observed=list(got), msg="rgb_to_oklch(%s) = %r" % (rgb, got))]
    if not (0.0 <= L <= 1.0 and C >= 0.0 and 0.0 <= H < 360.0):
        out.append(dict(sig="forward/range", case=case, observed=list(got),
                        msg="rgb_to_oklch(%s) = %r outside L[0,1], C>=0, H[0,360)" % (rgb, got)))
    a, b = C * math.cos(math.radians(H)), C * math.sin(math.radians(H))
    oLc = min(1.0, max(0.0, oL))
    if abs(L - oLc) > FWD_TOL or abs(a - oa) > FWD_TOL or abs(b - ob) > FWD_TOL:
        out.append(dict(sig="forward/differs_from_oklab", case=case, observed=[L, a, b], expected=[oL, oa, ob],
                        msg="rgb_to_oklch(%s) -> Lab (%.10f,%.10f,%.10f), OKLab definition gives (%.10f,%.10f,%.10f)"
                            % (rgb, L, a, b, oL, oa, ob)))
    try:
        back = cv.oklch_to_rgb(got)
    except Exception as e:  # noqa
        out.append(dict(sig="roundtrip/raises", case=case, observed=repr(e), msg="oklch_to_rgb(rgb_to_oklch(%s)) raised %r" % (rgb, e)))
        return out
    if tuple(back) != rgb or not _is_rgb8(back):
        out.append(dict(sig="roundtrip/lossy", case=case, observed=list(back), expected=list(rgb),
                        msg="oklch_to_rgb(rgb_to_oklch(%s)) = %s" % (rgb, back)))
    return out


def judge_safe_rgb(rgb):
    cv = _cv()
    rgb = tuple(rgb)
    case = {"kind": "safe_rgb", "rgb": list(rgb)}
    try:
        s = cv.rgb_to_oklch_safe(rgb)
    except Exception as e:  # noqa
        return [dict(sig="safe/raises", case=case, observed=repr(e), msg="rgb_to_oklch_safe(%s) raised %r" % (rgb, e))]
    valid_in = all(isinstance(x, int) and 0 <= x <= 255 for x in rgb)
    if valid_in:
        p = cv.rgb_to_oklch(rgb)
        if tuple(s) != tuple(p):
            return [dict(sig="safe/differs_on_valid_input", case=case, observed=list(s), expected=list(p),
                         msg="rgb_to_oklch_safe(%s) = %r but rgb_to_oklch = %r" % (rgb, s, p))]
        return []
    ok = (isinstance(s, tuple) and len(s) == 3 and all(isinstance(x, (int, float)) and math.isfinite(x) for x in s)
          and cv.is_valid_oklch(s) and 0 <= s[0] <= 1 and s[1] >= 0 and 0 <= s[2] <= 360)
    if not ok:
        return [dict(sig="safe/invalid_value_on_invalid_rgb", case=case, observed=list(s) if isinstance(s, tuple) else repr(s),
                     msg="rgb_to_oklch_safe(%s) = %r is not a valid OKLCH triple" % (rgb, s))]
    return []


def judge_inverse(lch):
    """One OKLCH triple (L in [0,1] or deliberately invalid): plain and safe inverse."""
    cv = _cv()
    lch = tuple(float(x) for x in lch)
    L, C, H = lch
    case = {"kind": "inverse", "lch": list(lch)}
    out = []
    valid = 0.0 <= L <= 1.0 and C >= 0.0 and 0.0 <= H <= 360.0
    try:
        s = cv.oklch_to_rgb_safe(lch)
    except Exception as e:  # noqa
        return [dict(sig="safe/raises", case=case, observed=repr(e), msg="oklch_to_rgb_safe(%s) raised %r" % (lch, e))]
    if not _is_rgb8(tuple(s)) or not cv.is_valid_rgb(s):
        out.append(dict(sig="safe/invalid_value", case=case, observed=repr(s),
                        msg="oklch_to_rgb_safe(%s) = %r is not a valid 8-bit colour" % (lch, s)))
    if not valid:
        return out
    try:
        got = cv.oklch_to_rgb(lch)
    except Exception as e:  # noqa
        return out + [dict(sig="inverse/raises", case=case, observed=repr(e), msg="oklch_to_rgb(%s) raised %r" % (lch, e))]
    if not _is_rgb8(tuple(got)):
        return out + [dict(sig="inverse/invalid_value", case=case, observed=repr(got),
                           msg="oklch_to_rgb(%s) = %r is not a valid 8-bit colour" % (lch, got))]
    if tuple(s) != tuple(got):
        out.append(dict(sig="safe/differs_on_valid_input", case=case, observed=list(s), expected=list(got),
                        msg="oklch_to_rgb_safe(%s) = %s but oklch_to_rgb = %s" % (lch, s, got)))
    ref = oklab.oklch_to_rgb_float(lch)
    if any(abs(g - r) > 1.0 + 1e-6 for g, r in zip(got, ref)):
        out.append(dict(sig="inverse/differs_from_oklab", case=case, observed=list(got), expected=ref,
                        msg="oklch_to_rgb(%s) = %s, OKLab definition (per-channel clip) gives %s"
                            % (lch, got, [round(x, 3) for x in ref])))
    if C == 0.0:
        if max(got) - min(got) > 1:
            out.append(dict(sig="inverse/achromatic_not_grey", case=case, observed=list(got),
                            msg="oklch_to_rgb(%s) = %s is not grey within one unit" % (lch, got)))
        if L == 0.0 and tuple(got) != (0, 0, 0):
            out.append(dict(sig="inverse/L0_not_black", case=case, observed=list(got), msg="oklch_to_rgb(%s) = %s" % (lch, got)))
        if L == 1.0 and tuple(got) != (255, 255, 255):
            out.append(dict(sig="inverse/L1_not_white", case=case, observed=list(got), msg="oklch_to_rgb(%s) = %s" % (lch, got)))
    return out


def judge_extreme(lch):
    """A finite triple with L in [0,1] and an extreme (but finite) chroma or hue: the plain inverse still yields a valid 8-bit
    colour (no reference value is compared: a hue of 1e308 has no meaningful position on the circle in binary64)."""
    cv = _cv()
    lch = tuple(float(x) for x in lch)
    case = {"kind": "extreme", "lch": [repr(x) for x in lch]}
    out = []
    for name in ("oklch_to_rgb", "oklch_to_rgb_safe"):
        try:
            got = getattr(cv, name)(lch)
        except Exception as e:  # noqa
            out.append(dict(sig="inverse/raises_on_finite_triple" if name == "oklch_to_rgb" else "safe/raises", case=case, observed=repr(e),
                            msg="%s(%s) raised %r" % (name, lch, e)))
            continue
        if not _is_rgb8(tuple(got)):
            out.append(dict(sig="inverse/invalid_value" if name == "oklch_to_rgb" else "safe/invalid_value", case=case, observed=repr(got),
                            msg="%s(%s) = %r is not a valid 8-bit colour" % (name, lch, got)))
    return out


def judge_case(case):
    if case["kind"] == "extreme":
        return judge_extreme([float(x) for x in case["lch"]])
    k = case["kind"]
    if k == "forward":
        return judge_forward(case["rgb"])
    if k == "safe_rgb":
        return judge_safe_rgb(case["rgb"])
    if k == "inverse":
        return judge_inverse(case["lch"])
    raise ValueError(k)


# ------------------------------------------------------------------ chunk workers
def chunk_forward(args):
    r, with_safe = args
    cv = _cv()
    f, inv, fs = cv.rgb_to_oklch, cv.oklch_to_rgb, cv.rgb_to_oklch_safe
    ref = oklab.rgb_to_oklab
    cos, sin, rad = math.cos, math.sin, math.radians
    viol = []
    hmax = 0.0
    for g in range(256):
        for b in range(256):
            c = (r, g, b)
            bad = False
            try:
                lch = f(c)
                L, C, H = lch
                oL, oa, ob = ref(c)
                hr = rad(H)
                if H > hmax:
                    hmax = H
                if not (0.0 <= L <= 1.0 and C >= 0.0 and 0.0 <= H < 360.0):
                    bad = True
                elif abs(L - min(1.0, oL)) > FWD_TOL or abs(C * cos(hr) - oa) > FWD_TOL or abs(C * sin(hr) - ob) > FWD_TOL:
                    bad = True
                elif inv(lch) != c:
                    bad = True
                elif with_safe and fs(c) != lch:
                    bad = True
            except Exception:  # noqa
                bad = True
            if bad and len(viol) < 6:
                viol += judge_forward(c) + (judge_safe_rgb(c) if with_safe else [])
    return 65536, viol, hmax


def chunk_inverse(args):
    L, Cs, Hs = args
    viol = []
    n = 0
    for C in Cs:
        for H in Hs:
            vs = judge_inverse((L, C, H))
            n += 1
            if vs and len(viol) < 6:
                viol += vs
    return n, viol


def run(ctx):
    ctx.cov["rule"] = (
        "forward conversion + round trip of all 2^24 colours against the OKLab reference model; inverse on the full "
        "grid L x C x H (plus H=360 and phase offsets); safe variants on all valid inputs of the tier and on a fixed "
        "alphabet of finite invalid triples. non-trivial = every chromatic colour / every grid point with C > 0."
    )
    with_safe = not ctx.quick
    n = 0
    hmax = 0.0
    for cnt, viol, hm in ctx.pmap_chunks("mc.props.c10", "chunk_forward", [[r, with_safe] for r in range(256)]):
        n += cnt
        hmax = max(hmax, hm)
        ctx.add_violations(viol)
    ctx.sub("forward_roundtrip_all_2^24", states=n, transitions=(3 if with_safe else 2) * n, evaluations=n, traces=n,
            distinct_nontrivial=n - 256, exhaustive=True, max_hue_seen=hmax)
    ctx.sample({"subcheck": "forward", "rgb": [255, 0, 0], "reference_oklab": list(oklab.rgb_to_oklab((255, 0, 0)))})
    if ctx.quick:
        cb = cube(17, offset=ctx.phase)
        k = 0
        for c in cb:
            ctx.add_violations(judge_safe_rgb(c))
            k += 1
        ctx.sub("safe_forward_valid_cube17", states=k, transitions=2 * k, evaluations=k, traces=k, distinct_nontrivial=k, exhaustive=True)

    # inverse grid
    step = 16 if ctx.quick else 64
    hstep = 15.0 if ctx.quick else 3.0
    off = ctx.phase * hstep / 4.0
    Ls = sorted(set([i / step for i in range(step + 1)] + [0.001, 0.01, 0.052, 0.0532, 0.999, 0.9999]))
    # barely chromatic triples (below the chroma of any non-grey 8-bit colour, ~0.00106) are valid input too: a small chroma
    # still tips single channels over a rounding boundary
    Cs = [0.5 * i / step for i in range(step + 1)] + [1e-6, 1e-4, 5e-4, 9e-4, 0.001, 0.002, 0.004, 0.37]
    Hs = sorted({(off + i * hstep) % 360.0 for i in range(int(360 / hstep))} | {0.0, 360.0, 359.999, 29.23, 142.5, 264.05})
    m = 0
    for cnt, viol in ctx.pmap_chunks("mc.props.c10", "chunk_inverse", [[L, Cs, Hs] for L in Ls]):
        m += cnt
        ctx.add_violations(viol)
    ctx.sub("inverse_grid", states=m, transitions=2 * m, evaluations=m, traces=m,
            distinct_nontrivial=m - len(Ls) * len(Hs), exhaustive=True, L_steps=len(Ls), C_steps=len(Cs), H_steps=len(Hs))
    ctx.sample({"subcheck": "inverse", "lch": [0.5, 0.25, 264.05], "reference": oklab.oklch_to_rgb_float((0.5, 0.25, 264.05))})

    # invalid inputs for the safe variants
    k = 0
    bad_lch = [(L, C, H) for L in (-0.5, 1.5, 0.5, -1e-9, 1.0000001) for C in (-0.1, 0.0, 0.2) for H in (-1.0, 361.0, 720.0, 180.0)]
    for t in bad_lch:
        ctx.add_violations(judge_inverse(t))
        k += 1
    # invalid lightness far outside [0,1], finite and not: the safe variant still answers with a valid colour
    for L in (1e306, -1e306, 1e308, 7.1e305, float("inf"), float("-inf"), float("nan")):
        for C, H in ((0.1, 30.0), (0.0, 0.0), (float("nan"), 30.0), (0.1, float("inf"))):
            ctx.add_violations(judge_inverse((L, C, H)))
            k += 1
    # finite triples with L in [0,1] but an extreme chroma or hue: the plain inverse too
    for L in (0.0, 0.5, 1.0):
        for C in (0.1, 0.5, 1e200, 1e308):
            for H in (1e308, -1e308, 5.8e307, 1e300, 720.5, -30.0, 360.0000001):
                ctx.add_violations(judge_extreme((L, C, H)))
                k += 1
    vals = (-1, 0, 128, 255, 256, 300)
    for r in vals:
        for g in vals:
            for b in vals:
                ctx.add_violations(judge_safe_rgb((r, g, b)))
                k += 1
    for t in ((300.0, 300.0, 300.0), (-0.5, 10, 10), (255.5, 0, 0), (1000, 1000, 1000), (-1000, 0, 0)):
        ctx.add_violations(judge_safe_rgb(t))
        k += 1
    ctx.sub("safe_variants_invalid_input", states=k, transitions=k, evaluations=k, traces=k, distinct_nontrivial=k, exhaustive=True)
    ctx.sample({"subcheck": "safe_rgb", "rgb": [300, 300, 300]})
    ctx.assumptions += [
        "OKLab matrices as published by Ottosson (2020-12-23 revision); per-channel clip for out-of-gamut triples",
        "'L=0 black / L=1 white' judged at C=0 (an out-of-gamut triple with L=0, C>0 clips to a non-black colour by definition)",
        "NaN/inf are outside the statement ('finite') for the plain conversions and not fed to them; the safe variants get them as invalid input",
    ]
