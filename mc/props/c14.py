"""C14 - invalid colour input is reported, never raised."""
import itertools
import os

TOKENS = ["rgb(", "rgba(", "hsl(", "hsla(", "var(--x)", "(", ")", ",", " ", "%", "/", "-", "+", ".", "1", "255", "300", "0.5",
          "1e3", "nan", "inf", "deg", "#", "fff", "ggg", "red", "inherit", "é", "\x00"]
EXTRA_WORDS = ["transparent", "currentcolor", ""]
NAN, INF = float("nan"), float("inf")
HUGE = 10 ** 400  # an int is a number too, and this one does not fit a float (float(HUGE) raises OverflowError)
ELEMS = [0, 1, 255, 256, -1, 0.0, 0.5, 1.0, 1.5, 255.0, 300.0, NAN, INF, -INF, "0", "50%", "abc", "", None, True, False, HUGE, -HUGE]


def _enc(x):
    """JSON-able encoding of a sequence element."""
    if isinstance(x, float) and x != x:
        return {"f": "nan"}
    if x in (INF, -INF) and isinstance(x, float):
        return {"f": "inf" if x > 0 else "-inf"}
    if isinstance(x, bool):
        return {"b": x}
    if isinstance(x, int) and abs(x) >= HUGE:
        return {"huge": 1 if x > 0 else -1}
    if isinstance(x, float):
        return {"f": repr(x)}
    return x


def _dec(x):
    if isinstance(x, dict):
        if "b" in x:
            return x["b"]
        if "huge" in x:
            return x["huge"] * HUGE
        return float(x["f"])
    return x


def judge_value(x):
    """x: str, tuple or list.  Returns list of violations."""
    from cm_colors import Color, ColorPair, make_readable_bulk

    if isinstance(x, str):
        case = {"kind": "value", "str": x}
    else:
        case = {"kind": "value", "seq": [_enc(e) for e in x], "as_list": isinstance(x, list)}

    def v(sig, msg, obs=None):
        return [dict(sig="invalid_input/" + sig, case=case, observed=obs, msg=msg)]

    try:
        c = Color(x)
    except BaseException as e:  # noqa
        return v("constructor_raises/%s" % type(e).__name__, "Color(%r) raised %s: %s" % (x, type(e).__name__, e), repr(e))
    try:
        valid, rgb, err = c.is_valid, c.rgb, c.error
    except BaseException as e:  # noqa
        return v("accessor_raises", "Color(%r) accessors raised %r" % (x, e), repr(e))
    if valid:
        if not (isinstance(rgb, tuple) and len(rgb) == 3 and all(isinstance(k, int) and 0 <= k <= 255 for k in rgb)):
            return v("valid_but_bad_rgb", "Color(%r) is valid with rgb %r" % (x, rgb), repr(rgb))
        return []
    if rgb is not None or not (isinstance(err, str) and err.strip()):
        return v("invalid_without_message", "Color(%r): is_valid False, rgb %r, error %r" % (x, rgb, err), [repr(rgb), repr(err)])
    out = []
    for t, b, which in ((x, "white", "text"), ("white", x, "background")):
        try:
            p = ColorPair(t, b)
            ok = (p.is_valid is False and p.is_readable == "Not Readable" and p.make_readable() == (None, False)
                  and isinstance(p.errors, list) and len(p.errors) >= 1)
            if not ok:
                out += v("invalid_pair_misreported", "ColorPair with invalid %s %r: is_valid=%r is_readable=%r make_readable=%r errors=%r"
                         % (which, x, p.is_valid, p.is_readable, p.make_readable(), p.errors))
        except BaseException as e:  # noqa
            out += v("pair_raises/%s" % type(e).__name__, "ColorPair with invalid %s %r raised %s: %s" % (which, x, type(e).__name__, e), repr(e))
    try:
        res = make_readable_bulk([(x, "white"), ("#000", "#fff"), ("white", x, True)])
        alone = _ALONE.get("a")
        if alone is None:
            alone = _ALONE["a"] = make_readable_bulk([("#000", "#fff")])[0]
        bad = (len(res) != 3 or res[1] != alone
               or str(res[0][1]).lower() in ("readable", "very readable") or str(res[2][1]).lower() in ("readable", "very readable"))
        if not bad:
            same0 = res[0][0] is x or res[0][0] == x or (res[0][0] != res[0][0])
            if not same0:
                bad = True
        if bad:
            out += v("bulk_misreports_invalid_entry", "make_readable_bulk with invalid entry %r -> %r" % (x, res), repr(res))
    except BaseException as e:  # noqa
        out += v("bulk_raises/%s" % type(e).__name__, "make_readable_bulk with invalid entry %r raised %s: %s" % (x, type(e).__name__, e), repr(e))
    return out


_ALONE = {}


REPORT_VALUES = ["nope", "#12", "rgb(1,2", "", (300, 0, 0), [1, 2], (None, 0, 0), (10, 20, 30, "x"), (0.5, 0.5, 0.5, None), ("a", "b", "c"),
                 [], (1, 2, 3, 4, 5), [float("nan"), 0, 0], "var(--x)", "inherit"]


def judge_bulk_report(i, as_bg):
    """An invalid value inside a bulk call that also writes the report: still reported as invalid, the rest processed."""
    import contextlib
    import io
    import shutil
    import tempfile

    from cm_colors import make_readable_bulk

    x = REPORT_VALUES[i]
    case = {"kind": "bulk_report", "i": i, "as_bg": as_bg}
    entry = ("#777777", x) if as_bg else (x, "#ffffff")
    d = tempfile.mkdtemp(prefix="c14-", dir="/var/tmp")
    cwd = os.getcwd()
    try:
        os.chdir(d)
        with contextlib.redirect_stdout(io.StringIO()):
            res = make_readable_bulk([("#000", "#fff"), entry, ("#111", "#fff", True)], save_report=True)
    except BaseException as e:  # noqa
        return [dict(sig="invalid_input/bulk_with_report_raises/%s" % type(e).__name__, case=case, observed=repr(e),
                     msg="make_readable_bulk([..., %r, ...], save_report=True) raised %s: %s" % (entry, type(e).__name__, e))]
    finally:
        os.chdir(cwd)
        shutil.rmtree(d, ignore_errors=True)
    if len(res) != 3 or str(res[1][1]).lower() in ("readable", "very readable") or res[0][1] != "very readable" or res[2][1] != "very readable":
        return [dict(sig="invalid_input/bulk_with_report_misreports", case=case, observed=repr(res),
                     msg="make_readable_bulk([..., %r, ...], save_report=True) -> %r" % (entry, res))]
    return []


def judge_case(case):
    if case.get("kind") == "bulk_report":
        return judge_bulk_report(case["i"], case["as_bg"])
    if case.get("kind") == "hexlike":
        return judge_value(case["str"]) or judge_hexlike(case["str"])
    if "str" in case:
        return judge_value(case["str"])
    seq = [_dec(e) for e in case["seq"]]
    return judge_value(list(seq) if case["as_list"] else tuple(seq))


def chunk_strings(job):
    prefix, depth = job
    out, n, ninv = [], 0, 0
    from cm_colors import Color

    for k in range(0, depth + 1):
        for tail in itertools.product(TOKENS, repeat=k):
            s = "".join(prefix + tail)
            n += 1
            vs = judge_value(s)
            if vs and len(out) < 8:
                out += vs
    return n, out


HEXCHARS = ["0", "f", "F", "g", "-", "+", " ", "_", "9"]


def judge_hexlike(s):
    """A '#...' string is a valid colour exactly when, after trimming whitespace, it is #rgb or #rrggbb."""
    from cm_colors import Color

    t = s.strip()
    if not t.startswith("#"):
        return []
    body = t[1:]
    is_hex = len(body) in (3, 6) and all(ch in "0123456789abcdefABCDEF" for ch in body)
    c = Color(s)
    if c.is_valid and not is_hex:
        return [dict(sig="invalid_input/non_hex_accepted", case={"kind": "hexlike", "str": s}, observed=repr(c.rgb),
                     msg="Color(%r) is accepted as %r although it is not a hex colour" % (s, c.rgb))]
    return []


def chunk_hexlike(job):
    """'#' + every string of length 1..6 over HEXCHARS starting with `first` (and the same without '#')."""
    first, maxlen = job
    out, n = [], 0
    for k in range(0, maxlen):
        for tail in itertools.product(HEXCHARS, repeat=k):
            body = first + "".join(tail)
            for s in ("#" + body, body):
                n += 1
                vs = judge_value(s) or judge_hexlike(s)
                if vs and len(out) < 8:
                    out += vs
    return n, out


COMPONENTS = ["1", "50%", "120deg", "120px", "1e", "0.5turn", "-1", "+1", "abc", "", "1 2", "calc(1)", "var(--x)", "1/2", "nan", "inf",
              "1e999", "\u0661", "0x10", "1.", ".5", "100%%", "#1", "none"]
TEMPLATES = ["hsl(%s, %s, %s)", "rgb(%s, %s, %s)", "hsl(%s %s %s)", "rgba(%s, %s, %s, 0.5)", "hsla(%s, %s, %s, 0.5)", "%s, %s, %s", "(%s, %s, %s)"]


def chunk_templates(job):
    """Complete functional notations whose components come from a near-miss alphabet (full product per template)."""
    tmpl, first = job
    out, n = [], 0
    for b in COMPONENTS:
        for c in COMPONENTS:
            n += 1
            vs = judge_value(tmpl % (first, b, c))
            if vs and len(out) < 8:
                out += vs
    return n, out


# text that some formatting / templating layer could take for a directive if an error message or a report is built from it
PLACEHOLDERS = ["{}", "{0}", "{name}", "{", "}", "{0!r:>{1}}", "%s", "%d", "%(x)s", "%", "$x", "${x}", "\\1", "\\g<0>", "\\", "[bold]", "[/]"]
PH_CORE = ["rgb(", ")", ",", "1", " ", "#", "fff", "red", "color "]


def chunk_placeholders(first):
    out, n = [], 0
    A = PLACEHOLDERS + PH_CORE
    for k in (0, 1, 2):
        for tail in itertools.product(A, repeat=k):
            if first not in PLACEHOLDERS and not any(t in PLACEHOLDERS for t in tail):
                continue
            n += 1
            vs = judge_value("".join((first,) + tail))
            if vs and len(out) < 8:
                out += vs
    return n, out


def chunk_seqs(job):
    prefix, depth = job
    out, n = [], 0
    for k in range(0, depth + 1):
        for tail in itertools.product(ELEMS, repeat=k):
            seq = prefix + tail
            for as_list in (False, True):
                n += 1
                vs = judge_value(list(seq) if as_list else tuple(seq))
                if vs and len(out) < 8:
                    out += vs
    return n, out


def run(ctx):
    smax = 4 if ctx.quick else 5
    qmax = 4 if ctx.quick else 5
    ctx.cov["rule"] = (
        "every string of <= %d tokens over a %d-token near-miss CSS alphabet and every tuple and list of length 0..%d over a "
        "%d-element alphabet (ints, floats incl. nan/inf, numeric and arbitrary strings, None, bools): Color(x) never raises and is "
        "either valid (3 ints 0..255) or invalid (rgb None, non-empty error); invalid values, as text and as background: "
        "is_readable 'Not Readable', make_readable (None, False), bulk reports the entry as invalid and the neighbours as alone. "
        "non-trivial = inputs rejected as invalid (counted)." % (smax, len(TOKENS), qmax, len(ELEMS))
    )
    # strings: shard by the first two tokens
    jobs = [((), 1)]
    for a in TOKENS:
        for b in TOKENS:
            jobs.append(((a, b), smax - 2))
    n = 0
    for cnt, vs in ctx.pmap(chunk_strings, jobs, chunksize=4):
        n += cnt
        ctx.add_violations(vs)
    k = 0
    for w in EXTRA_WORDS + ["rgb(1,2,3", "rgb(1,2)", "rgb(1 2 3)", "hsl(0,0,0)", "#12", "#1234", "#12345", "#1234567", "rgb(1,2,3,4,5)",
                            "hsla(1,2%,3%)", "hsl(1,2%,3%,0.5)", "rgb(-1,0,0)", "rgb(256,0,0)", "rgba(1,2,3,2)", "rgba(1,2,3,-0.5)",
                            "rgb(50%,50,50)", "rgb(calc(1+1),0,0)", "color(srgb 1 0 0)", "rgb(1,,2)", "rgb(1;2;3)", "  ", "\t\n", "0x10,1,2",
                            "1,2", "1 2 3 4 5", "١٢٣,1,2", "rgb(١,٢,٣)", "hsl(٣٦٠,1%,1%)", "#ｆｆｆ", "ｒed", "rgb(1,2,3)\x00"]:
        ctx.add_violations(judge_value(w))
        k += 1
    ctx.sub("strings", states=n + k, transitions=n + k, evaluations=n + k, traces=n + k, distinct_nontrivial=n + k, exhaustive=True, max_tokens=smax)
    ctx.sample({"subcheck": "string", "value": "rgb(255,%"})
    ctx.sample({"subcheck": "string", "value": "hsla(nan 0.5"})
    tj = [(t, a) for t in TEMPLATES for a in COMPONENTS]
    tn = 0
    for cnt, vs in ctx.pmap(chunk_templates, tj, chunksize=4):
        tn += cnt
        ctx.add_violations(vs)
    ctx.sub("functional_templates_x_near_miss_components", states=tn, transitions=tn, evaluations=tn, traces=tn, distinct_nontrivial=tn, exhaustive=True,
            templates=TEMPLATES, components=len(COMPONENTS))
    ctx.sample({"subcheck": "template", "value": "hsl(120px, 50%, 1e)"})
    pn = 0
    for cnt, vs in ctx.pmap(chunk_placeholders, PLACEHOLDERS + PH_CORE):
        pn += cnt
        ctx.add_violations(vs)
    ctx.sub("strings_with_formatting_placeholders", states=pn, transitions=pn, evaluations=pn, traces=pn, distinct_nontrivial=pn, exhaustive=True,
            placeholders=PLACEHOLDERS, max_tokens=3)
    ctx.sample({"subcheck": "placeholder", "value": "rgb({name},1"})
    hj = [(c, 6) for c in HEXCHARS]
    hn = 0
    for cnt, vs in ctx.pmap(chunk_hexlike, hj):
        hn += cnt
        ctx.add_violations(vs)
    ctx.sub("hex_shaped_strings", states=hn, transitions=hn, evaluations=hn, traces=hn, distinct_nontrivial=hn, exhaustive=True, chars=HEXCHARS, max_length=6)
    ctx.sample({"subcheck": "hex-shaped", "value": "#-f-f-f"})
    k = 0
    for i in range(len(REPORT_VALUES)):
        for as_bg in (False, True):
            ctx.add_violations(judge_bulk_report(i, as_bg))
            k += 1
    ctx.sub("invalid_entries_in_bulk_with_report", states=k, transitions=k, evaluations=k, traces=k, distinct_nontrivial=k, exhaustive=True)
    jobs = [((), 1)]
    for a in ELEMS:
        for b in ELEMS:
            jobs.append(((a, b), qmax - 2))
    m = 0
    for cnt, vs in ctx.pmap(chunk_seqs, jobs, chunksize=2):
        m += cnt
        ctx.add_violations(vs)
    ctx.sub("sequences", states=m, transitions=m, evaluations=m, traces=m, distinct_nontrivial=m, exhaustive=True, max_length=qmax)
    ctx.sample({"subcheck": "sequence", "value": "(None, 0.5, 0.5, 0.5)"})
    ctx.sample({"subcheck": "sequence", "value": "[nan, '50%', True, '']"})
    ctx.assumptions += ["nested sequences as elements are outside the statement (numbers, strings, None, booleans) and not fed"]
