"""C15 - results are pure functions of the arguments: no history or thread dependence.

(1) history exploration: every operation sequence up to depth d from a pristine interpreter state (fork per sequence);
(2) processes / hash seeds: the per-operation reference table recomputed in freshly exec'd interpreters;
(3) schedule exploration: every schedule with <= p pre-emptions of small multi-thread workloads under a controlled
    scheduler (mc/explore/sched.py), each execution in a child forked from the pristine state.
"""
import contextlib
import io
import itertools
import json
import os
import subprocess
import sys

from mc.explore.forked import forked
from mc.explore import sched

LINE_FILES = {"optimisation.py", "colors.py", "cm_colors.py", "color_parser.py"}

# ------------------------------------------------------------------------------------------------
# Operation alphabet.  Arguments collide on purpose: same text / different background, same pair / settings
# differing in exactly one of mode, large_text, very_readable, different texts on the same background.
# ------------------------------------------------------------------------------------------------
T1, T2, T3 = "#777", "#707070", "#999"
B1, B2 = "#fff", "#000"
SHEET = ":root { --t: #777; }\n.a { color: var(--t); }\n.b { color: #999; background-color: #fff; }\n"


def _ops():
    ops = {}

    def add(name, *a):
        ops[name] = (name.split(":")[0],) + a

    # fresh-pair fixes: (text, bg, mode, large, very_readable)
    add("mr:T1/B1/m1", T1, B1, 1, False, False)
    add("mr:T2/B1/m0/vr", T2, B1, 0, False, True)
    add("mr:T1/B2/m1", T1, B2, 1, False, False)
    add("mr:T1/B1/m0", T1, B1, 0, False, False)
    add("mr:T1/B1/m1/large", T1, B1, 1, True, False)
    add("mr:T1/B1/m1/vr", T1, B1, 1, False, True)
    add("mr:T1/B1/m2", T1, B1, 2, False, False)
    add("mr:T3/B1/m0", T3, B1, 0, False, False)
    add("mr:T3/B1/m1", T3, B1, 1, False, False)
    add("mr:aaa/B1/m1", "#aaaaaa", B1, 1, False, False)          # several default-mode steps
    add("mr:yellow/B1/m2", "#ffff66", B1, 2, False, False)       # relaxed fallback
    add("mr:rgba/B1/m1", "rgba(0, 0, 0, 0.4)", B1, 1, False, False)
    add("mr:hsl/B1/m1", "hsl(210, 20%, 55%)", B1, 1, False, False)
    add("mr:tuple/B1/m1", (119, 119, 119), (255, 255, 255), 1, False, False)
    add("mr:T2/B2/m1/vr", T2, B2, 1, False, True)
    add("mr:chroma/mid/m1", (237, 186, 70), (115, 83, 215), 1, True, False)
    add("mr:5a/B1/m1/vr", "#5a5a5a", B1, 1, False, True)          # first-tolerance fix whose candidates are darker than T1's
    add("mr:78/B1/m1", "#787878", B1, 1, False, False)
    add("mr:78/B1/m0", "#787878", B1, 0, False, False)
    add("mr:hsl47/B1/m1", "hsl(0, 0%, 47%)", B1, 1, False, False)
    add("bulk:T1B1,5aB1", [(T1, B1), ("#5a5a5a", B1)], 1, False)
    # a far-side pair (text lighter than a mid-tone background): the search direction depends on the *minimum*, so the
    # variants below differ in exactly one setting yet take different paths through the same routine
    # (near-black large text on #636363: black reaches the ordinary 3.0 within dE 5 but never the very_readable 4.5, so the
    # two requests walk in opposite directions; the op called .../large is the one-setting variant in text size)
    FT, FB = "#171717", "#636363"
    add("mr:far/m1", FT, FB, 1, True, False)
    add("mr:far/m1/vr", FT, FB, 1, True, True)
    add("mr:far/m1/large", FT, FB, 1, False, False)
    add("mr:far/m0", FT, FB, 0, True, False)
    # relaxed mode beyond its recursive pre-pass (the branch-witness pair of mc/lattice.py), single-setting variants
    BWT, BWB = (177, 235, 241), (141, 109, 0)
    add("mr:bw/m2", BWT, BWB, 2, False, False)
    add("mr:bw/m2/vr", BWT, BWB, 2, False, True)
    add("mr:bw/m2/large", BWT, BWB, 2, True, False)
    # same text on two backgrounds that both need a fix, in opposite directions
    add("mr:78/dark/m1", "#787878", "#282828", 1, False, False)
    add("ir:T1/B1", T1, B1, False)
    add("ir:T1/B1/large", T1, B1, True)
    add("ir:T1/B2", T1, B2, False)
    add("ir:T3/B1", T3, B1, False)
    add("new:bad", "nope", B1)
    add("new:T1/B1", T1, B1)
    # the long-lived pair P = ColorPair(T1, B1)
    add("P.mr:m1", 1, False)
    add("P.mr:m0/vr", 0, True)
    add("P.mr:m2", 2, False)
    add("P.ir")
    add("P.mr:show", 1, False, True)
    add("bulk:T1B1,T3B2", [(T1, B1), (T3, B2)], 1, False)
    add("bulk:T3B2,T1B1", [(T3, B2), (T1, B1)], 1, False)
    add("bulk:T2B1,T1B1/m0/vr", [(T2, B1), (T1, B1)], 0, True)
    add("bulk:T1B1large,bad", [(T1, B1, True), ("bogus", B1)], 1, False)
    add("bulk:T1B1,5aB1/m0/vr", [(T1, B1), ("#5a5a5a", B1)], 0, True)
    # a translucent spelling the lenient parser accepts (space separated, slash alpha) over two backgrounds: constructions and queries only
    SL = "rgb(0 0 0 / 0.4)"
    add("new:slash/B1", SL, B1)
    add("new:slash/B2", SL, B2)
    add("ir:slash/B2", SL, B2, False)
    add("ir:slash/B1", SL, B1, False)
    add("mr:slash/B2/m1", SL, B2, 1, False, False)
    add("cli:sheet")
    add("cli:sheet/premium")
    # operations that end early or raise: whatever a run sets up must not outlive it
    add("cli:empty_dir")
    add("cli:only_cm_files")
    add("bulk:raises_midway", [(T1, B1), (T1,), (T3, B1)], 1, False)
    add("new:nested_pair", (T1, B1), (1, 2))
    add("show:T1/B1", T1, B1)
    return ops


OPS = _ops()
# many distinct failing pairs per (mode, very_readable): greys a little below 4.5 on white, queried in order and then again
SAT_TEXTS = ["#%02x%02x%02x" % (v, v, v) for v in (0x79, 0x7b, 0x7d, 0x7f, 0x81, 0x83, 0x85, 0x87, 0x89, 0x8b, 0x8d, 0x8f)]
for _m in (0, 1, 2):
    for _vr in (False, True):
        for _i, _t in enumerate(SAT_TEXTS):
            OPS["sat:m%d/%s/%d" % (_m, "vr" if _vr else "aa", _i)] = ("mr", _t, B1, _m, False, _vr)
QUICK_OPS = ["mr:T1/B1/m1", "mr:T1/B1/m1/vr", "mr:T1/B1/m1/large", "mr:T1/B1/m0", "mr:T1/B1/m2",
             "mr:far/m1", "mr:far/m1/vr", "mr:far/m1/large", "mr:far/m0",
             "mr:78/B1/m1", "mr:78/dark/m1", "mr:T2/B1/m0/vr", "mr:T1/B2/m1", "mr:T3/B1/m1", "ir:T1/B1",
             "P.mr:m1", "P.mr:m0/vr", "P.mr:m2", "P.ir", "bulk:T1B1,T3B2", "bulk:T3B2,T1B1", "cli:sheet", "show:T1/B1",
             "mr:rgba/B1/m1", "mr:hsl/B1/m1", "mr:chroma/mid/m1",
             # the deepest path of each mode, and a strict-mode probe that needs the last tolerance of the schedule
             "mr:yellow/B1/m2", "mr:T3/B1/m0", "mr:bw/m2", "mr:bw/m2/vr", "mr:bw/m2/large",
             "new:slash/B1", "new:slash/B2", "ir:slash/B2", "ir:slash/B1", "mr:slash/B2/m1"]
THOROUGH_OPS = QUICK_OPS + ["mr:aaa/B1/m1", "bulk:T2B1,T1B1/m0/vr", "bulk:T1B1large,bad", "new:bad", "mr:78/B1/m0",
                            "cli:sheet/premium"]


def _jsonable(x):
    if isinstance(x, tuple):
        return ["tuple"] + [_jsonable(v) for v in x]
    if isinstance(x, list):
        return [_jsonable(v) for v in x]
    return x


def pair_state(p):
    return _jsonable((repr(p.text.original), p.text.rgb, p.text.is_valid, p.text.error, p.text._format,
                      repr(p.bg.original), p.bg.rgb, p.bg.is_valid, p.bg.error, p.large, p.is_valid, list(p.errors), p.is_readable))


def apply_op(name, state):
    """Execute one operation on the real library; returns a JSON-able observation."""
    from cm_colors import ColorPair, make_readable_bulk

    op = OPS[name]
    kind = op[0]
    if kind == "mr":
        _, t, b, mode, large, vr = op
        return _jsonable(ColorPair(t, b, large_text=large).make_readable(mode=mode, very_readable=vr))
    if kind == "ir":
        _, t, b, large = op
        return ColorPair(t, b, large_text=large).is_readable
    if kind == "new":
        try:
            p = ColorPair(op[1], op[2])
        except Exception as e:  # noqa
            return "raised " + type(e).__name__
        return pair_state(p)
    if kind.startswith("P."):
        if "P" not in state:
            state["P"] = ColorPair(T1, B1)
        p = state["P"]
        if kind == "P.ir":
            return p.is_readable
        before = pair_state(p)
        if len(op) > 3 and op[3]:
            with contextlib.redirect_stdout(io.StringIO()):
                res = p.make_readable(mode=op[1], very_readable=op[2], show=True)
        else:
            res = p.make_readable(mode=op[1], very_readable=op[2])
        after = pair_state(p)
        return {"result": _jsonable(res), "pair_unchanged": before == after, "before": before, "after": after}
    if kind == "bulk" and name == "bulk:raises_midway":
        try:
            return _jsonable(make_readable_bulk(list(op[1]), mode=op[2], very_readable=op[3]))
        except Exception as e:  # noqa
            return "raised " + type(e).__name__
    if kind == "bulk":
        return _jsonable(make_readable_bulk(list(op[1]), mode=op[2], very_readable=op[3]))
    if kind == "cli" and name in ("cli:empty_dir", "cli:only_cm_files"):
        from mc.cli import run as R

        with R.Workdir() as w, R.Workdir() as cwd:
            if name == "cli:only_cm_files":
                w.write("old_cm.css", SHEET)
            res = R.run_cli([w.path], cwd.path)
            return {"stdout": res["stdout"].replace(w.path, "<dir>"), "exit": res["exit_code"], "listing": w.listing()}
    if kind == "cli":
        from mc.cli import run as R

        with R.Workdir() as w, R.Workdir() as cwd:
            p = w.write("s.css", SHEET)
            args = [p] + (["--premium"] if name.endswith("premium") else [])
            res = R.run_cli(args, cwd.path)
            outp = p[:-4] + "_cm.css"
            out = open(outp).read() if os.path.exists(outp) else None
            counts, listed, _ = R.parse_stdout(res["stdout"])
            return {"out": out, "counts": counts, "listed": _jsonable(listed), "exit": res["exit_code"]}
    if kind == "show":
        with contextlib.redirect_stdout(io.StringIO()):
            return _jsonable(ColorPair(op[1], op[2]).make_readable(show=True))
    raise ValueError(name)


# ------------------------------------------------------------------------------------------------
# module-state fingerprint (reported, never judged)
# ------------------------------------------------------------------------------------------------
def fingerprint():
    import types

    out = {}
    for mname, mod in sorted(sys.modules.items()):
        if not (mname == "cm_colors" or mname.startswith("cm_colors.")) or mod is None:
            continue
        for k, v in sorted(vars(mod).items()):
            if k.startswith("__"):
                continue
            key = "%s.%s" % (mname, k)
            if isinstance(v, (dict, list, set)):
                try:
                    out[key] = repr(sorted(v.items(), key=repr) if isinstance(v, dict) else sorted(v, key=repr))[:20000]
                except Exception:  # noqa
                    out[key] = "<%d items>" % len(v)
            elif isinstance(v, types.FunctionType) and getattr(v, "__module__", "").startswith("cm_colors"):
                out[key + ".__defaults__"] = repr(v.__defaults__) + repr(v.__kwdefaults__)
                if hasattr(v, "cache_info"):
                    out[key + ".cache"] = repr(v.cache_info())
                if v.__dict__:
                    out[key + ".__dict__"] = repr(sorted(v.__dict__))
            elif hasattr(v, "cache_info"):
                out[key + ".cache"] = repr(v.cache_info())
            elif isinstance(v, type) and getattr(v, "__module__", "").startswith("cm_colors"):
                for ak, av in sorted(vars(v).items()):
                    if not ak.startswith("__") and not callable(av) and not isinstance(av, (property, staticmethod, classmethod)):
                        out[key + "." + ak] = repr(av)[:2000]
    return out


def run_sequence(names):
    """(runs in a forked child)  -> [(observation, changed module-state keys)]"""
    state = {}
    out = []
    fp = fingerprint()
    for n in names:
        try:
            ob = ("ok", apply_op(n, state))
        except Exception as e:  # noqa
            ob = ("exc", "%s: %s" % (type(e).__name__, e))
        fp2 = fingerprint()
        changed = sorted(k for k in set(fp) | set(fp2) if fp.get(k) != fp2.get(k))
        fp = fp2
        out.append((ob, changed))
    return out


_REF_CODE = r"""
import json, sys
sys.path[:0] = %r
from mc.props import c15
name = sys.argv[1]
try:
    ob = ["ok", c15.apply_op(name, {})]
except Exception as e:
    ob = ["exc", "%%s: %%s" %% (type(e).__name__, e)]
print("REF=" + json.dumps(ob))
"""


def reference(job):
    """One operation alone in a freshly exec'd interpreter (optionally under another hash seed)."""
    name, seed = job
    env = dict(os.environ)
    if seed == "random":
        env.pop("PYTHONHASHSEED", None)
        env["PYTHONHASHSEED"] = "random"
    elif seed is not None:
        env["PYTHONHASHSEED"] = str(seed)
    r = subprocess.run([sys.executable, "-c", _REF_CODE % (sys.path[:2],), name], capture_output=True, text=True, env=env, timeout=600)
    line = next((l for l in r.stdout.splitlines() if l.startswith("REF=")), None)
    if r.returncode != 0 or line is None:
        return name, seed, ["harness", (r.stderr or r.stdout)[-800:]]
    return name, seed, json.loads(line[4:])


def norm(ob):
    return json.loads(json.dumps(ob))


def judge_sequence(names, refs):
    case = {"kind": "history", "ops": list(names)}
    status, res = forked(run_sequence, list(names))
    if status != "ok":
        return [dict(sig="history/harness", case=case, msg="sequence %s could not be run: %s" % (names, res))], []
    out, changed_all = [], []
    for i, (n, (ob, changed)) in enumerate(zip(names, res)):
        changed_all += changed
        ob = norm(list(ob))
        ref = refs[n]
        a, b = ob, ref
        if n.startswith("P.mr"):
            # the probe on the long-lived pair: result must equal the reference result; the pair must be unchanged
            if ob[0] == "ok" and not ob[1]["pair_unchanged"]:
                out.append(dict(sig="history/make_readable_altered_its_pair", case=case, observed=ob[1]["after"], expected=ob[1]["before"],
                                msg="after %s, %s changed the observable state of the ColorPair it was called on" % (list(names[:i]), n)))
            a = ["ok", ob[1]["result"]] if ob[0] == "ok" else ob
            b = ["ok", ref[1]["result"]] if ref[0] == "ok" else ref
        if a != b:
            prior = list(names[:i])
            cause = "repeated_on_same_object" if n.startswith("P.") and any(p.startswith("P.") for p in prior) else \
                "after_other_calls" if prior else "fresh_fork_vs_fresh_exec"
            out.append(dict(sig="history/result_depends_on_history/" + cause, case=case, observed=a, expected=b,
                            msg="%s returned %s after the history %s, but %s in a fresh interpreter" % (n, json.dumps(a)[:300], prior, json.dumps(b)[:300])))
    return out, changed_all


def chunk_history(job):
    seqs, refs = job
    out, changed, n, steps = [], set(), 0, 0
    for names in seqs:
        vs, ch = judge_sequence(names, refs)
        n += 1
        steps += len(names)
        changed |= set(ch)
        if vs and len(out) < 6:
            out += vs
    return n, steps, out, sorted(changed)


# ------------------------------------------------------------------------------------------------
# schedule exploration
# ------------------------------------------------------------------------------------------------
WORKLOADS = {
    # Thread workloads use cheap operations (first-tolerance fixes, queries): the number of one-pre-emption schedules is the
    # number of scheduling points of all threads but the last, and every schedule is a full execution.
    # same background, different texts / settings: the second thread's leftovers (darker candidates) would be acceptable
    # improvements for the first - a shared scratch value is therefore observable, not silently discarded
    "W1": ["mr:T1/B1/m1", "mr:5a/B1/m1/vr"],
    "W1r": ["mr:5a/B1/m1/vr", "mr:T1/B1/m1"],
    # same text, different backgrounds
    "W2": ["mr:T1/B1/m1", "mr:T1/B2/m1"],
    "W2r": ["mr:T1/B2/m1", "mr:T1/B1/m1"],
    # same pair, settings differing in exactly one flag (mode)
    "W3": ["mr:78/B1/m1", "mr:78/B1/m0"],
    "W3r": ["mr:78/B1/m0", "mr:78/B1/m1"],
    # a bulk run against a single fix of an hsl() spelling of one of its pairs
    "W4": ["bulk:T1B1,5aB1", "mr:hsl47/B1/m1"],
    "W4r": ["mr:hsl47/B1/m1", "bulk:T1B1,5aB1"],
    # two overlapping bulk calls with different settings that share a pair
    "W6": ["bulk:T1B1,5aB1", "bulk:T1B1,5aB1/m0/vr"],
    "W6r": ["bulk:T1B1,5aB1/m0/vr", "bulk:T1B1,5aB1"],
    # three threads
    "W5": ["ir:T1/B1", "mr:T1/B1/m1", "mr:5a/B1/m1/vr"],
}


def preimport():
    """Everything the operations import lazily is imported in the parent (and nothing is called), so that forked
    children start from the same pristine, fully imported state."""
    import importlib

    for m in ("cm_colors.core.optimisation", "cm_colors.core.visualiser", "cm_colors.cli.main", "cm_colors.cli.html_report", "mc.cli.run"):
        try:
            importlib.import_module(m)
        except ImportError:
            pass  # a refactor may have moved it; the operations then import what they need themselves


def _pkg_dir():
    import cm_colors

    return os.path.dirname(os.path.abspath(cm_colors.__file__)) + os.sep


def _make_ops(names):
    def mk():
        return [(lambda n=n: apply_op(n, {})) for n in names]

    return mk


COARSE_FILES = {"optimisation.py", "colors.py", "cm_colors.py", "color_parser.py", "main.py"}


_LOOPS = {}


def _loop_lines():
    if "v" not in _LOOPS:
        import glob

        _LOOPS["v"] = sched.loop_header_lines(glob.glob(os.path.join(_pkg_dir(), "core", "*.py")) + glob.glob(os.path.join(_pkg_dir(), "cli", "*.py")))
    return _LOOPS["v"]


def exec_schedule(names, schedule, line_files, record_trace=False, call_files=None, loops_only=False):
    """(runs in a forked child)"""
    import cm_colors  # noqa

    r = sched.run_schedule(_make_ops(names), {int(k): v for k, v in schedule.items()}, _pkg_dir(), line_files, record_trace, call_files,
                           _loop_lines() if loops_only else None)
    r["results"] = [norm(list(x)) if x is not None else None for x in r["results"]]
    return r


def _gran(granularity):
    """line: every line of the four core files + every call in the package; call: every call in the package;
    loop: loop-header lines (one point per loop iteration) + calls of functions defined in the core/CLI files."""
    if granularity == "line":
        return LINE_FILES, None, False
    if granularity == "call":
        return set(), None, False
    if granularity == "loop":
        return LINE_FILES | {"conversions.py", "color_metrics.py", "main.py"}, COARSE_FILES, True
    raise ValueError(granularity)


def judge_schedule(wname, names, schedule, refs, granularity, want_points=False):
    case = {"kind": "schedule", "workload": wname, "ops": list(names), "schedule": {str(k): v for k, v in schedule.items()}, "granularity": granularity}
    lf, cf, loops = _gran(granularity)
    status, r = forked(exec_schedule, names, schedule, lf, False, cf, loops)
    if status != "ok":
        return [dict(sig="schedule/harness", case=case, msg="execution failed: %s" % r)], None
    out = []
    if r["error"]:
        if "diverged" in r["error"]:
            raise sched.DivergedReplay("%s schedule %s: %s" % (wname, schedule, r["error"]))
        out.append(dict(sig="schedule/deadlock_or_error", case=case, observed=r["error"], msg="workload %s under schedule %s: %s" % (wname, schedule, r["error"])))
    for tid, (n, ob) in enumerate(zip(names, r["results"])):
        if ob != refs[n]:
            out.append(dict(sig="schedule/result_depends_on_interleaving", case=case, observed=ob, expected=refs[n],
                            msg="workload %s (%s) with pre-emptions %s: thread %d (%s) returned %s, sequentially it returns %s"
                                % (wname, " || ".join(names), schedule, tid, n, json.dumps(ob)[:240], json.dumps(refs[n])[:240])))
    return out, (r["points"] if want_points else r["count"])


def chunk_sched(job):
    wname, names, schedules, refs, gran = job
    out, n, outcomes = [], 0, set()
    for sc in schedules:
        vs, _ = judge_schedule(wname, names, sc, refs, gran)
        n += 1
        outcomes.add("violation" if vs else "sequential results")
        if vs and len(out) < 4:
            out += vs
    return wname, n, out, sorted(outcomes)


def second_level(job):
    """For one first pre-emption, enumerate all second pre-emptions after it and run them."""
    wname, names, first, refs, gran = job
    (i, alt) = first
    vs, points = judge_schedule(wname, names, {i: alt}, refs, gran, want_points=True)
    out, n, outcomes = list(vs), 1, set()
    if points is None:
        return wname, n, out, []
    for (j, tid, mask) in points:
        if j <= i:
            continue
        for alt2 in range(len(names)):
            if alt2 != tid and mask >> alt2 & 1:
                v2, _ = judge_schedule(wname, names, {i: alt, j: alt2}, refs, gran)
                n += 1
                outcomes.add("violation" if v2 else "sequential results")
                if v2 and len(out) < 4:
                    out += v2
    return wname, n, out, sorted(outcomes)


def judge_case(case):
    preimport()  # same fully imported starting state as the exploration (point numbering depends on it)
    names = case["ops"]
    need = sorted(set(names))
    refs = {}
    for n in need:
        _, _, ob = reference((n, None))
        refs[n] = ob
    if case["kind"] == "history":
        return judge_sequence(names, refs)[0]
    if case["kind"] == "seed":
        _, _, ob = reference((names[0], case["seed"]))
        if ob != refs[names[0]]:
            return [dict(sig="process/result_depends_on_hash_seed", case=case, observed=ob, expected=refs[names[0]], msg="%s differs under PYTHONHASHSEED=%s" % (names[0], case["seed"]))]
        return []
    sc = {int(k): v for k, v in case["schedule"].items()}
    return judge_schedule(case["workload"], names, sc, refs, case.get("granularity", "line"))[0]


def run(ctx):
    q = ctx.quick
    preimport()
    ops = QUICK_OPS if q else THOROUGH_OPS
    depth = 2 if q else 3
    ctx.cov["rule"] = (
        "(1) every sequence of <= %d operations over a %d-operation alphabet with colliding arguments (construct, is_readable, make_readable on "
        "fresh pairs and on one long-lived pair, bulk lists in both orders, an in-process CLI run, show=True), each sequence run in a child "
        "forked from a pristine interpreter, every operation's result compared with the same operation alone in a freshly exec'd interpreter; "
        "(2) that reference table recomputed under PYTHONHASHSEED in {0,1,2,12345,random}; (3) %d multi-thread workloads under a controlled "
        "scheduler (scheduling points = line events in optimisation/colors/cm_colors/color_parser, call events elsewhere in the package): "
        "every schedule with <= 1 pre-emption at line granularity%s. non-trivial = sequences of >= 2 operations and schedules with >= 1 pre-emption."
        % (depth, len(ops), len(WORKLOADS), "" if q else " and <= 2 pre-emptions at loop granularity (one point per loop iteration + calls of core/CLI functions) on workloads W1, W2r and W5")
    )
    # ---- references (fresh exec per operation) and hash seeds ----------------------------------------
    all_ops = sorted(set(ops) | {n for w in WORKLOADS.values() for n in w} | {"cli:empty_dir", "cli:only_cm_files", "bulk:raises_midway"}
                     | {n for n in OPS if n.startswith("sat:") and (not q or n.startswith(("sat:m1/aa", "sat:m2/aa")))})
    refs = {}
    for name, _seed, ob in ctx.pmap(reference, [(n, None) for n in all_ops]):
        if ob[0] == "harness":
            raise RuntimeError("reference interpreter failed for %s: %s" % (name, ob[1]))
        refs[name] = ob
    seeds = [0, 1, 2, 12345, "random"]
    k = 0
    for name, seed, ob in ctx.pmap(reference, [(n, s) for n in all_ops for s in seeds]):
        k += 1
        if ob != refs[name]:
            ctx.add_violations([dict(sig="process/result_depends_on_hash_seed", case={"kind": "seed", "ops": [name], "seed": seed}, observed=ob,
                                     expected=refs[name], msg="%s returns %s under PYTHONHASHSEED=%s but %s otherwise"
                                     % (name, json.dumps(ob)[:200], seed, json.dumps(refs[name])[:200]))])
    ctx.sub("fresh_interpreters_x_hash_seeds", states=len(all_ops) * (len(seeds) + 1), transitions=k + len(all_ops), evaluations=k, traces=k,
            distinct_nontrivial=k, exhaustive=True, seeds=[str(s) for s in seeds])
    ctx.sample({"subcheck": "reference", "op": "mr:T1/B1/m1", "result": refs["mr:T1/B1/m1"]})

    # ---- (1) histories -----------------------------------------------------------------------------------
    rot = ctx.phase * 3 % len(ops)
    ops_r = ops[rot:] + ops[:rot]
    seqs = []
    for d in range(1, depth + 1):
        base = ops_r if d < 3 else [o for o in ops_r if o not in ("mr:yellow/B1/m2", "mr:aaa/B1/m1", "cli:sheet/premium", "mr:rgba/B1/m1", "mr:hsl/B1/m1")
                                    and not o.startswith("mr:bw/")][:14]
        seqs += [list(s) for s in itertools.product(base, repeat=d)]
    # abnormal-termination prefix, then two queries on the same base pair differing in one setting (both orders)
    ABN = ["cli:empty_dir", "cli:only_cm_files", "bulk:raises_midway"]
    FAM = [["mr:T1/B1/m1", "mr:T1/B1/m1/vr", "mr:T1/B1/m1/large", "mr:T1/B1/m0", "mr:T1/B1/m2", "P.mr:m1", "P.mr:m0/vr"],
           ["mr:far/m1", "mr:far/m1/vr", "mr:far/m1/large", "mr:far/m0"], ["mr:bw/m2", "mr:bw/m2/vr", "mr:bw/m2/large"]]
    for a in ABN:
        seqs.append([a])
        for o in ops_r:
            seqs.append([a, o])
        for fam in FAM:
            for x, y in itertools.permutations(fam, 2):
                seqs.append([a, x, y])
    # long histories (beyond the depth bound, not exhaustive over order): everything-happened-before states.
    #  (a) the whole alphabet in 8 rotations and reversed, run twice in one interpreter - the second pass probes every operation
    #      after all others; (b) one operation repeated k times, then a probe - counters, growing lists, size-limited caches
    long_seqs = []
    base = [o for o in ops_r if not o.startswith("cli:sheet/premium")]
    for r in range(0, len(base), max(1, len(base) // 8)):
        rot_ops = base[r:] + base[:r]
        long_seqs.append(rot_ops + rot_ops)
    long_seqs.append(list(reversed(base)) + base)
    rep_ops = ["mr:T1/B1/m1", "mr:far/m1/vr", "mr:bw/m2", "P.mr:m1", "bulk:T1B1,T3B2", "cli:sheet", "new:slash/B1", "mr:78/dark/m1", "ir:T1/B1", "mr:T3/B1/m0"]
    probes = ["mr:T1/B1/m1/vr", "mr:far/m1", "mr:bw/m2/vr", "ir:slash/B2"]
    for o in rep_ops:
        for kk in (3, 8, 17):
            for pr in probes:
                long_seqs.append([o] * kk + [pr, o])
    # (c) saturation: 12 distinct failing pairs under one setting, then the same 12 again (size-limited caches, ring buffers)
    sat_settings = [(1, "aa"), (2, "aa")] if q else [(0, "aa"), (1, "aa"), (1, "vr"), (2, "aa")]
    for m_, v_ in sat_settings:
        names_ = ["sat:m%d/%s/%d" % (m_, v_, i_) for i_ in range(len(SAT_TEXTS))]
        long_seqs.append(names_ + names_)
        long_seqs.append(names_ + list(reversed(names_)))
    seqs += long_seqs
    # longest first, interleaved so chunks are balanced
    seqs.sort(key=len, reverse=True)
    csize = 24
    nj = max(16, len(seqs) // csize)
    jobs = [(seqs[i::nj], refs) for i in range(nj)]
    n = steps = 0
    changed = set()
    for cnt, st, vs, ch in ctx.pmap(chunk_history, jobs):
        n += cnt
        steps += st
        changed |= set(ch)
        ctx.add_violations(vs)
    ctx.sub("operation_histories", states=n, transitions=steps, evaluations=steps, traces=n, distinct_nontrivial=n - len(ops), exhaustive=True,
            depth=depth, alphabet=len(ops), long_histories=len(long_seqs), longest_history=max(len(x) for x in long_seqs),
            module_state_changed_by_some_operation=sorted(changed)[:40])
    ctx.sample({"subcheck": "history", "ops": ["mr:T2/B1/m0/vr", "P.mr:m1", "P.mr:m1"]})

    # ---- (3) schedules ---------------------------------------------------------------------------------------
    wl = WORKLOADS if not q else {k: WORKLOADS[k] for k in ("W1", "W1r", "W2", "W3", "W4", "W5", "W6")}
    
    total = 0
    outcomes = {}
    per = {}
    # default runs: points; also replay determinism (identical traces twice)
    base_points = {}
    for wname, names in wl.items():
        st1, r1 = forked(exec_schedule, names, {}, LINE_FILES, True)
        st2, r2 = forked(exec_schedule, names, {}, LINE_FILES, True)
        if st1 != "ok" or st2 != "ok" or r1["trace"] != r2["trace"] or r1["results"] != r2["results"]:
            raise RuntimeError("scheduler is not deterministic on workload %s" % wname)
        base_points[wname] = r1["points"]
        cand = [p for p in r1["points"] if any(a != p[1] and p[2] >> a & 1 for a in range(len(names)))]
        mid = cand[len(cand) // 3]
        alt = next(a for a in range(len(names)) if a != mid[1] and mid[2] >> a & 1)
        sa, ra = forked(exec_schedule, names, {mid[0]: alt}, LINE_FILES, True)
        sb, rb = forked(exec_schedule, names, {mid[0]: alt}, LINE_FILES, True)
        if sa != "ok" or sb != "ok" or ra["trace"] != rb["trace"]:
            raise RuntimeError("a recorded schedule replayed twice gave different traces on workload %s" % wname)
        total += 4
    jobs = []
    for wname, names in wl.items():
        pts = base_points[wname]
        scheds = [{}]
        for (i, tid, mask) in pts:
            for alt in range(len(names)):
                if alt != tid and mask >> alt & 1:
                    scheds.append({i: alt})
        per[wname] = {"points": len(pts), "one_preemption_schedules": len(scheds) - 1}
        step = max(1, len(scheds) // 48)
        for i in range(step):
            jobs.append((wname, names, scheds[i::step], refs, "line"))
    for wname, cnt, vs, oc in ctx.pmap(chunk_sched, jobs):
        total += cnt
        ctx.add_violations(vs)
        outcomes.setdefault(wname, set()).update(oc)
    ctx.sub("schedules_1_preemption_line", states=total, transitions=sum(p["points"] for p in per.values()), evaluations=total, traces=total,
            distinct_nontrivial=total - len(wl), exhaustive=True, workloads=per,
            distinct_outcomes={k: sorted(v) for k, v in outcomes.items()})
    ctx.sample({"subcheck": "schedule", "workload": "W1", "ops": WORKLOADS["W1"], "schedule": {"412": 1}, "granularity": "line"})
    ctx.cov["schedule_outcomes_note"] = "one distinct outcome per workload (the sequential results) is the expected, non-vacuous reading: see DESIGN.md 4/C15"
    if not q:
        # <= 2 pre-emptions at loop granularity (one point per loop iteration + calls of core/CLI functions)
        t2 = 0
        jobs = []
        per2 = {}
        lf, cf, loops = _gran("loop")
        # (one thread order per workload: the mirrored order differs only in which thread starts, which the first pre-emption
        # already varies; all orders are explored in the <= 1 pre-emption pass above)
        for wname, names in WORKLOADS.items():
            if wname not in ("W1", "W2r", "W5"):
                continue
            st, r = forked(exec_schedule, names, {}, lf, False, cf, loops)
            pts = r["points"]
            firsts = [(i, alt) for (i, tid, mask) in pts for alt in range(len(names)) if alt != tid and mask >> alt & 1]
            per2[wname] = {"loop_points": len(pts), "first_preemptions": len(firsts)}
            for f in firsts:
                jobs.append((wname, names, f, refs, "loop"))
        for wname, cnt, vs, oc in ctx.pmap(second_level, jobs, chunksize=2):
            t2 += cnt
            ctx.add_violations(vs)
        ctx.sub("schedules_2_preemptions_loop", states=t2, transitions=t2, evaluations=t2, traces=t2, distinct_nontrivial=t2, exhaustive=True, workloads=per2)
    ctx.assumptions += [
        "scheduling points are trace events (lines / calls), not bytecodes; CPython with the GIL; every execution starts in a child forked from an "
        "interpreter that imported the library and called nothing",
        "module-state fingerprint changes are reported in the evidence, never judged (a correct cache changes state without changing results)",
    ]
