"""C07 - CSS colour values parse to the colour CSS defines.

Every string of a finite family is fed to parse_color_to_rgb / Color and compared with the CSS Color 3
reference parser (exact rationals -> nearest 8-bit value, both neighbours accepted on exact ties).
"""
import itertools
from fractions import Fraction as F

from mc.lattice import NAMED_LIST, cube, cube_levels
from mc.oracle import css_color

ALPHAS = ["0", "0.01", "0.1", "0.25", "0.5", "0.75", "0.9", "0.99", "1", "1.0", ".5", "0.0"]
BGS = [None, (0, 0, 0), (255, 255, 255), (30, 30, 30), (200, 16, 46), (12, 200, 140), (250, 240, 20)]
WS = ["", " ", "\t", "\n "]


def _lib():
    from cm_colors.core import color_parser
    from cm_colors import Color

    return color_parser, Color


def judge_string(s, bg=None, via_color=False):
    """One CSS string (optionally composited over an opaque 8-bit background)."""
    cp, Color = _lib()
    case = {"kind": "string", "s": s, "bg": list(bg) if bg else None, "via_color": via_color}
    ref = css_color.parse(s, allow_bare_hex=True)
    if ref is None:
        raise ValueError("harness generated a string the reference parser does not accept: %r" % s)
    try:
        if via_color:
            c = Color(s, background_context=Color(tuple(bg)) if bg else None)
            got = c.rgb
            if got is None:
                raise ValueError(c.error)
        else:
            got = cp.parse_color_to_rgb(s, background=tuple(bg) if bg else None)
    except Exception as e:  # noqa
        return [dict(sig="parse/rejects_valid_css", case=case, observed=repr(e),
                     msg="%r%s is a valid CSS Color 3 value but was rejected: %s" % (s, " over %s" % (bg,) if bg else "", e))]
    if not (isinstance(got, tuple) and len(got) == 3 and all(type(x) is int and 0 <= x <= 255 for x in got)):
        return [dict(sig="parse/not_a_triple", case=case, observed=repr(got), msg="%r parsed to %r" % (s, got))]
    r, g, b, a = ref
    if a == 1:
        sets = [css_color.nearest8(x) for x in (r, g, b)]
        if not all(v in st for v, st in zip(got, sets)):
            return [dict(sig="parse/wrong_colour", case=case, observed=list(got), expected=[sorted(x) for x in sets],
                         msg="%r parsed to %s, CSS defines %s" % (s, got, [float(x) for x in (r, g, b)]))]
        return []
    ex = css_color.blend((r, g, b), a, bg or (255, 255, 255))
    if a == 0 and tuple(got) != tuple(bg or (255, 255, 255)):
        return [dict(sig="parse/alpha0_not_background", case=case, observed=list(got),
                     msg="%r over %s parsed to %s" % (s, bg, got))]
    if any(abs(F(v) - e) > F(3, 2) for v, e in zip(got, ex)):
        return [dict(sig="parse/wrong_composite", case=case, observed=list(got), expected=[float(x) for x in ex],
                     msg="%r over %s parsed to %s, exact source-over blend is %s" % (s, bg or "white", got, [round(float(x), 3) for x in ex]))]
    return []


def judge_seq(seq, as_list):
    cp, _ = _lib()
    val = list(seq) if as_list else tuple(seq)
    case = {"kind": "seq", "seq": list(seq), "as_list": as_list}
    try:
        got = cp.parse_color_to_rgb(val)
    except Exception as e:  # noqa
        return [dict(sig="parse/rejects_int_triple", case=case, observed=repr(e), msg="%r rejected: %s" % (val, e))]
    if tuple(got) != tuple(seq) or not all(type(x) is int for x in got):
        return [dict(sig="parse/int_triple_not_itself", case=case, observed=list(got), expected=list(seq),
                     msg="%r parsed to %r" % (val, got))]
    return []


def judge_group(strings, bg=None):
    """Spellings CSS treats as equivalent must give identical results."""
    cp, _ = _lib()
    res = []
    for s in strings:
        try:
            res.append(cp.parse_color_to_rgb(s, background=tuple(bg) if bg else None))
        except Exception as e:  # noqa
            res.append("raised %r" % (e,))
    if len(set(map(repr, res))) > 1:
        i = next(i for i in range(len(res)) if repr(res[i]) != repr(res[0]))
        return [dict(sig="parse/equivalent_spellings_differ", case={"kind": "group", "strings": [strings[0], strings[i]], "bg": list(bg) if bg else None},
                     observed=[repr(res[0]), repr(res[i])],
                     msg="equivalent spellings %r and %r parse to %r and %r" % (strings[0], strings[i], res[0], res[i]))]
    return []


def judge_case(case):
    k = case["kind"]
    if k == "string":
        return judge_string(case["s"], case["bg"], case.get("via_color", False))
    if k == "seq":
        return judge_seq(case["seq"], case["as_list"])
    if k == "group":
        return judge_group(case["strings"], case["bg"])
    if k == "translucent_chunk":
        bgs = [tuple(b) if b else None for b in case["bgs"]]
        return [v for v in chunk_translucent((case["strings"], bgs))[1] if v["sig"] == case.get("expect_sig", v["sig"])]
    raise ValueError(k)


# ------------------------------------------------------------------ chunk workers
def _collect(viol, vs):
    if vs and len(viol) < 8:
        viol.extend(vs)


def chunk_hex6(args):
    r, variants = args
    cp, _ = _lib()
    parse = cp.parse_color_to_rgb
    viol, n = [], 0
    for g in range(256):
        for b in range(256):
            c = (r, g, b)
            h = "%02x%02x%02x" % c
            for var in variants:
                s = ("#" + h) if var == 0 else ("#" + h.upper()) if var == 1 else h if var == 2 else h.upper() if var == 3 \
                    else "#" + "".join(ch.upper() if i % 2 else ch for i, ch in enumerate(h))
                n += 1
                try:
                    ok = parse(s) == c
                except Exception:  # noqa
                    ok = False
                if not ok:
                    _collect(viol, judge_string(s))
    return n, viol


def case_patterns(word):
    letters = [i for i, ch in enumerate(word) if ch.isalpha()]
    for mask in range(1 << len(letters)):
        w = list(word)
        for j, i in enumerate(letters):
            if mask >> j & 1:
                w[i] = w[i].upper()
        yield "".join(w)


def chunk_hex3(first):
    viol, n = [], 0
    hexd = "0123456789abcdef"
    for b_ in hexd:
        for c_ in hexd:
            base = first + b_ + c_
            group = []
            for w in case_patterns(base):
                for pre in ("#", ""):
                    s = pre + w
                    group.append(s)
                    n += 1
                    _collect(viol, judge_string(s))
            group += [" #" + base, "#" + base + "\n", "#" + base * 1, "#" + "".join(ch * 2 for ch in base)]
            for s in group[-4:]:
                n += 1
                _collect(viol, judge_string(s))
            _collect(viol, judge_group(group))
    return n, viol


def chunk_strings(args):
    strings, bg = args
    viol = []
    for s in strings:
        _collect(viol, judge_string(s, bg))
    return len(strings), viol


def chunk_translucent(args):
    """The same strings over every background inside one child, so that anything remembered from one background to the
    next is observable; violations carry the whole chunk as replay context."""
    strings, bgs = args
    viol, n = [], 0
    for bg in bgs:
        for s in strings:
            n += 1
            vs = judge_string(s, bg)
            if vs and len(viol) < 8:
                for v in vs:
                    v["chunk_case"] = {"kind": "translucent_chunk", "strings": list(strings), "bgs": [list(b) if b else None for b in bgs],
                                       "expect_sig": v["sig"]}
                viol.extend(vs)
    return n, viol


def chunk_groups(args):
    groups, bg = args
    viol, n = [], 0
    for grp in groups:
        n += len(grp)
        _collect(viol, judge_group(grp, bg))
        _collect(viol, judge_string(grp[0], bg))
    return n, viol


def chunk_hsl(args):
    hues, sl, names = args
    cp, _ = _lib()
    parse = cp.parse_color_to_rgb
    fast = css_color.read_hsl_fast
    viol, n = [], 0
    for h in hues:
        for s in sl:
            for l in sl:
                st = "hsl(%s, %s%%, %s%%)" % (h, s, l)
                n += 1
                try:
                    got = parse(st)
                    sets = fast(st)
                    ok = got[0] in sets[0] and got[1] in sets[1] and got[2] in sets[2]
                except Exception:  # noqa
                    ok = False
                if not ok:
                    _collect(viol, judge_string(st))
    return n, viol


def chunk_seq(args):
    r, lv = args
    viol, n = [], 0
    for g in lv:
        for b in lv:
            for as_list in (False, True):
                n += 1
                _collect(viol, judge_seq((r, g, b), as_list))
    return n, viol


def ws_variants(template_parts):
    """template_parts: list of literal pieces; every gap gets each of WS (full product)."""
    gaps = len(template_parts) - 1
    for combo in itertools.product(WS, repeat=gaps):
        out = [template_parts[0]]
        for w, p in zip(combo, template_parts[1:]):
            out.append(w)
            out.append(p)
        yield "".join(out)


def run(ctx):
    q = ctx.quick
    ctx.cov["rule"] = (
        "every string of each finite family (all #rrggbb x case/#-less variants, all #rgb x every case pattern, 148 keywords "
        "x case x padding, rgb()/rgba() integers and percentages per position, full whitespace product at the 8 optional "
        "positions, every case pattern of the function names, hsl()/hsla() hue x S x L grids incl. negative and >360 hues, "
        "alpha x fg x bg) parsed by the library and by the CSS Color 3 reference parser. non-trivial = distinct strings."
    )
    # ---- hex ----------------------------------------------------------------------------
    variants = (0,) if q else (0, 1, 2, 3, 4)
    n = 0
    for cnt, viol in ctx.pmap(chunk_hex6, [(r, variants) for r in range(256)]):
        n += cnt
        ctx.add_violations(viol)
    if q:  # case / bare variants on a sub-lattice
        lv = cube_levels(17, offset=ctx.phase)
        strs = []
        for c in cube(17, offset=ctx.phase):
            h = "%02x%02x%02x" % c
            strs += ["#" + h.upper(), h, h.upper()]
        for cnt, viol in ctx.pmap(chunk_strings, [(strs[i:i + 2000], None) for i in range(0, len(strs), 2000)]):
            n += cnt
            ctx.add_violations(viol)
    ctx.sub("hex6", states=n, transitions=n, evaluations=n, traces=n, distinct_nontrivial=n, exhaustive=True, variants=len(variants))
    ctx.sample({"subcheck": "hex6", "s": "#A1b2C3"})
    n = 0
    for cnt, viol in ctx.pmap(chunk_hex3, list("0123456789abcdef")):
        n += cnt
        ctx.add_violations(viol)
    ctx.sub("hex3_all_case_patterns", states=n, transitions=n, evaluations=n, traces=n, distinct_nontrivial=n, exhaustive=True)
    ctx.sample({"subcheck": "hex3", "s": "FaB"})

    # ---- keywords -------------------------------------------------------------------------
    groups = []
    for name, _ in NAMED_LIST:
        alt = "".join(ch.upper() if i % 2 else ch for i, ch in enumerate(name))
        groups.append([name, name.upper(), name.title(), alt, " " + name, name + " ", "\t" + name.upper() + "\n"])
    n = 0
    for cnt, viol in ctx.pmap(chunk_groups, [(groups[i:i + 10], None) for i in range(0, len(groups), 10)]):
        n += cnt
        ctx.add_violations(viol)
    ctx.sub("keywords", states=n, transitions=n, evaluations=n, traces=n, distinct_nontrivial=n, exhaustive=True)
    ctx.sample({"subcheck": "keyword", "s": "ReBeCcApUrPlE"})

    # ---- rgb(): integers and percentages, position by position ---------------------------
    cb = cube(4 if q else 6, offset=ctx.phase)
    strs = []
    for pos in range(3):
        for v in range(256):
            for c in cb[:: (7 if q else 1)]:
                t = list(c)
                t[pos] = v
                strs.append("rgb(%d, %d, %d)" % tuple(t))
    pct = ["%d.%d" % (i // 10, i % 10) for i in range(0, 1001)] + ["100", "0", "50", "12.5", "33.333", "66.67", "99.9999", "+10", "+0.5", "010", ".5"]
    others = ["0%", "100%", "40%", "73.2%"]
    for pos in range(3):
        for p in pct:
            for o1 in others[: (2 if q else 4)]:
                for o2 in others[: (2 if q else 4)]:
                    t = [o1, o2]
                    t.insert(pos, p + "%")
                    strs.append("rgb(%s, %s, %s)" % tuple(t))
    strs += ["rgb(+10, 020, 30)", "rgb(0,0,0)", "rgb(255,255,255)", "rgb(+255, +0, 007)"]
    n = 0
    for cnt, viol in ctx.pmap(chunk_strings, [(strs[i:i + 2000], None) for i in range(0, len(strs), 2000)]):
        n += cnt
        ctx.add_violations(viol)
    ctx.sub("rgb_function_values", states=n, transitions=n, evaluations=n, traces=n, distinct_nontrivial=n, exhaustive=True)
    ctx.sample({"subcheck": "rgb()", "s": "rgb(12.5%, 100%, 0%)"})

    # ---- whitespace x case: full product at the 8 optional positions --------------------
    groups = []
    templ = [
        ["", "rgb(", "18", ",", "52", ",", "86", ")", ""],
        ["", "rgb(", "10%", ",", "20.5%", ",", "100%", ")", ""],
        ["", "hsl(", "210", ",", "65%", ",", "20%", ")", ""],
    ]
    if not q:
        templ += [["", "hsl(", "-30", ",", "100%", ",", "50%", ")", ""], ["", "rgb(", "255", ",", "0", ",", "7", ")", ""]]
    for t in templ:
        # gaps: lead | after '(' | before ',' | after ',' | before ',' | after ',' | before ')' | trail  = 8
        groups.append(list(ws_variants(t)))
    templ_a = [["", "rgba(", "18", ",", "52", ",", "86", ",", "0.5", ")", ""], ["", "hsla(", "210", ",", "65%", ",", "20%", ",", "0.25", ")", ""]]
    ws_a = WS[:2] if q else WS[:3]
    for t in templ_a:
        gaps = len(t) - 1
        grp = []
        for combo in itertools.product(ws_a, repeat=gaps):
            out = [t[0]]
            for w, p in zip(combo, t[1:]):
                out += [w, p]
            grp.append("".join(out))
        groups.append(grp)
    for fn, body in (("rgb", "(1, 2, 3)"), ("rgba", "(1, 2, 3, 0.5)"), ("hsl", "(30, 40%, 50%)"), ("hsla", "(30, 40%, 50%, 0.5)"),
                     ("rgb", "(10%, 20%, 30%)")):
        groups.append([w + body for w in case_patterns(fn)])
    n = 0
    jobs = []
    for grp in groups:
        for bg in (None, (12, 200, 140)):
            jobs.append(([grp], bg))
    for cnt, viol in ctx.pmap(chunk_groups, jobs):
        n += cnt
        ctx.add_violations(viol)
    # every member individually against the reference
    flat = [s for grp in groups for s in grp]
    for cnt, viol in ctx.pmap(chunk_strings, [(flat[i:i + 4000], (12, 200, 140)) for i in range(0, len(flat), 4000)]):
        n += cnt
        ctx.add_violations(viol)
    ctx.sub("whitespace_and_case_products", states=n, transitions=n, evaluations=n, traces=n, distinct_nontrivial=len(flat), exhaustive=True)
    ctx.sample({"subcheck": "whitespace", "s": "\n RGB(\t18 ,\n 52\t, 86 )\t"})

    # ---- hsl(): hue x S x L -------------------------------------------------------------
    if q:
        hues = [str(h) for h in range(-720, 721, 15)] + ["0.5", "-0.5", "359.5", "360.5", "12.25", "-33.3", "1080", "+45"]
        sl = [str(v) for v in range(0, 101, 5)] + ["12.5", "99.9"]
    else:
        hues = [str(h) for h in range(-720, 721)] + ["0.5", "-0.5", "359.5", "360.5", "12.25", "-33.3", "1080", "+45", "719.99", ".25"]
        sl = [str(v) for v in range(0, 101)] + ["12.5", "99.9", "0.1", "33.333"]
    # far beyond one turn, but still exactly representable in a float; leading zeros; a long fraction
    hues += ["36000", "3600090", "-100000", "123456789", "1000000000045", "-999999999999", "00090", "0000.5"]
    step = 6 if q else 12
    n = 0
    for cnt, viol in ctx.pmap(chunk_hsl, [(hues[i:i + step], sl, None) for i in range(0, len(hues), step)]):
        n += cnt
        ctx.add_violations(viol)
    ctx.sub("hsl_grid", states=n, transitions=n, evaluations=n, traces=n, distinct_nontrivial=n, exhaustive=True, hues=len(hues), sl=len(sl))
    ctx.sample({"subcheck": "hsl()", "s": "hsl(-405, 35%, 80%)"})

    # ---- rgba()/hsla(): alpha x fg x bg ---------------------------------------------------
    fgs = cube(4, offset=ctx.phase)
    strs = []
    for a in ALPHAS:
        for c in fgs:
            strs.append("rgba(%d, %d, %d, %s)" % (c + (a,)))
        for h in ("0", "37", "120", "210.5", "-60", "480"):
            for s_ in ("0%", "35%", "100%"):
                for l_ in ("0%", "22%", "50%", "87.5%", "100%"):
                    strs.append("hsla(%s, %s, %s, %s)" % (h, s_, l_, a))
        strs.append("rgba(10%%, 50%%, 90%%, %s)" % a)
    jobs = [(strs[i:i + 60], BGS) for i in range(0, len(strs), 60)]
    n = 0
    for cnt, viol in ctx.pmap_forked(chunk_translucent, jobs):
        n += cnt
        ctx.add_violations(viol)
    # the same through Color(..., background_context=...)
    k = 0
    for bg in BGS[1:4]:
        for a in ("0.5", "0", "1"):
            for s in ("rgba(200, 16, 46, %s)" % a, "hsla(210, 65%%, 20%%, %s)" % a):
                ctx.add_violations(judge_string(s, bg, via_color=True))
                k += 1
    ctx.sub("translucent_forms", states=n + k, transitions=n + k, evaluations=n + k, traces=n + k, distinct_nontrivial=n + k, exhaustive=True,
            alphas=len(ALPHAS), backgrounds=len(BGS))
    ctx.sample({"subcheck": "rgba()", "s": "rgba(0, 85, 170, 0.25)", "bg": [200, 16, 46]})

    # ---- 3-int tuples and lists ------------------------------------------------------------
    lv = cube_levels(17, offset=ctx.phase) if q else list(range(256))
    rs = lv if q else list(range(256))
    n = 0
    for cnt, viol in ctx.pmap(chunk_seq, [(r, lv) for r in rs]):
        n += cnt
        ctx.add_violations(viol)
    ctx.sub("int_triples", states=n, transitions=n, evaluations=n, traces=n, distinct_nontrivial=n, exhaustive=True)
    ctx.sample({"subcheck": "tuple", "seq": [200, 0.5, 0.5], "note": "not fed: only 3-int sequences are in the statement"})
    ctx.assumptions += [
        "reference = CSS Color 3 grammar in exact rationals; exact rounding ties accept both neighbours",
        "out of scope by the statement: out-of-range components, exponent notation, Level 4 syntax",
    ]
