"""C04 - change is bounded: strict mode within dE 5.0, each search step within its tolerance."""
from mc import sweep
from mc.lattice import pair_lattice
from mc.oracle import ciede2000

TOLS = [0.1, 0.5, 0.8, 1.0, 2.0, 3.7, 5.0, 10.0, 20.0, 50.0]
TARGETS = [3.0, 4.5, 7.0, 21.0]
SCHEDULES = [[0.3], [1.0, 9.0], [6.0, 2.0], [5.0, 3.0, 1.0], [40.0], [0.8, 1.0, 1.2], [2.5, 2.6], [0.05, 0.1]]


def _within(text, res, lim):
    from cm_colors.core.color_metrics import calculate_delta_e_2000 as lib_de

    d1 = lib_de(tuple(text), tuple(res))
    d2 = ciede2000.delta_e(tuple(text), tuple(res))
    return (d1 <= lim and d2 <= lim + 0.05), d1, d2


def judge_routine(routine, text, bg, arg, target):
    """routine in {'binary', 'gradient', 'multi'}; arg = tolerance or schedule."""
    from cm_colors.core import optimisation as opt

    text, bg = tuple(text), tuple(bg)
    case = {"kind": "routine", "routine": routine, "text": list(text), "bg": list(bg), "arg": arg, "target": target}
    name = {"binary": "binary_search_lightness", "gradient": "gradient_descent_oklch", "multi": "generate_accessible_color"}[routine]
    fn = getattr(opt, name, None)
    if fn is None:
        return None
    fn = getattr(fn, "__wrapped__", fn)
    try:
        if routine == "multi":
            res = fn(text, bg, large=False, target_contrast=target, min_contrast=min(target, 4.5), delta_e_sequence=list(arg))
            lim = max(arg)
        else:
            res = fn(text, bg, arg, target)
            lim = arg
    except Exception as e:  # noqa
        return [dict(sig="bound/routine_raises", case=case, observed=repr(e), msg="%s(%s,%s,%r,%s) raised %r" % (name, text, bg, arg, target, e))]
    if res is None:
        return []
    if not (isinstance(res, (tuple, list)) and sweep.is_rgb8(tuple(res))):
        return [dict(sig="bound/routine_returned_invalid", case=case, observed=repr(res),
                     msg="%s(%s,%s,%r,%s) returned %r" % (name, text, bg, arg, target, res))]
    if tuple(res) == text:
        return []
    ok, d1, d2 = _within(text, res, lim)
    if not ok:
        return [dict(sig="bound/routine_exceeds_tolerance", case=case, observed=[list(res), d1, d2], expected=lim,
                     msg="%s(%s, %s, tolerance %r, target %s) returned %s at dE00 %.4f (library) / %.4f (reference) > %s"
                         % (name, text, bg, arg, target, tuple(res), d1, d2, lim))]
    return []


def chunk_routines(job):
    text, bg, heavy = job
    out, n, skipped = [], 0, set()
    for tol in TOLS:
        for target in TARGETS:
            vs = judge_routine("binary", text, bg, tol, target)
            if vs is None:
                skipped.add("binary")
            else:
                n += 1
                out += vs
    if heavy:
        for tol in TOLS:
            for target in (4.5, 7.0):
                vs = judge_routine("gradient", text, bg, tol, target)
                if vs is None:
                    skipped.add("gradient")
                else:
                    n += 1
                    out += vs
        for sch in SCHEDULES:
            for target in (4.5, 7.0):
                vs = judge_routine("multi", text, bg, sch, target)
                if vs is None:
                    skipped.add("multi")
                else:
                    n += 1
                    out += vs
    return n, out[:8], sorted(skipped)


def judge_case(case):
    if case["kind"] == "pair":
        return sweep.judge_c04(sweep.rec_from_case(case), sweep.install_chain_logger())
    if case["kind"] == "envx":
        from mc.explore import envx_run

        return envx_run.replay("C04", case)
    if case["kind"] == "routine":
        arg = case["arg"]
        return judge_routine(case["routine"], case["text"], case["bg"], arg, case["target"]) or []
    raise ValueError(case["kind"])


def run(ctx):
    ctx.cov["rule"] = (
        "(a) every mode-0 run of the pair lattice x large x very_readable: dE00(original, result) <= 5.0 on the library's metric "
        "and <= 5.05 on the reference metric; (b) the three documented search routines called directly on pairs x tolerance "
        "alphabet x targets, and the multi-phase search on schedules the library never uses; (c) every search step logged "
        "inside mode 0/1/2 runs starts from the original or a previous step's result, stays within the largest tolerance of "
        "its schedule, and the API result is the original or a logged step result. non-trivial = runs that changed the colour."
    )
    pl, it = sweep.sweep(ctx)
    chain_ok = sweep.install_chain_logger()
    if not chain_ok:
        ctx.skip("step_chain", "optimisation.generate_accessible_color is absent: only API-level clauses judged")
    n = changed = steps = 0
    for rec in it:
        ctx.add_violations(sweep.judge_c04(rec, chain_ok))
        n += 1
        for cfg, (val, ok, chain) in rec["res"].items():
            changed += val != rec["text"]
            steps += len(chain)
    ctx.sub("strict_cap_and_step_chain", states=n, transitions=12 * n + steps, evaluations=12 * n, traces=12 * n, distinct_nontrivial=changed,
            exhaustive=True, logged_search_steps=steps)
    ctx.sample({"subcheck": "pair", "text": list(pl[7][0]), "bg": list(pl[7][1]), "settings": "all 12"})
    if chain_ok and steps == 0:
        ctx.skip("step_chain", "wrapper installed but never called (vacuous)")

    stride = 9 if ctx.quick else 11
    sub = [(t, b, True) for t, b in pl[::stride]] + [(t, b, False) for t, b in pl[3::stride]]
    m = 0
    skipped = set()
    for cnt, vs, sk in ctx.pmap_forked(chunk_routines, sub, chunksize=1):
        ctx.add_violations(vs)
        m += cnt
        skipped |= set(sk)
    for s in sorted(skipped):
        ctx.skip("routine_" + s, "documented routine not found in optimisation module")
    ctx.sub("search_routines_direct", states=len(sub), transitions=m, evaluations=m, traces=m, distinct_nontrivial=m, exhaustive=True,
            tolerances=TOLS, targets=TARGETS, schedules=SCHEDULES)
    from mc.explore import envx_run

    envx_run.run(ctx, "C04")
    ctx.sample({"subcheck": "routine", "routine": "multi", "text": list(sub[0][0]), "bg": list(sub[0][1]), "schedule": SCHEDULES[1], "target": 7.0})
