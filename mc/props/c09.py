"""C09 - CLI: input files are never touched and the rest of the stylesheet is preserved."""
import itertools
import os

from mc.cli import observe as O
from mc.cli import run as R
from mc.cli import sheetgen as G
from mc.oracle import css_tokens as T

PT = {
    "comment_top": "/* top comment { } ; */",
    "charset": '@charset "utf-8";',
    "import": '@import url("x;y{}.css") screen;',
    "fontface": '@font-face { font-family: "X{}"; src: url(a.woff) format("woff"); unicode-range: U+0025-00FF, u+4??; }',
    "keyframes": "@keyframes k { from { opacity: 0 } 50.5% { opacity: .5 } to { opacity: 1 } }",
    "page": "@page :first { margin: 1in }",
    "unknown_block": '@unknown foo "bar" { a b c; [x] (y) }',
    "unknown_noblock": "@other x y;",
    "strings": ".s::before { content: \"} /* x */ ; {\"; background: url( 'q\\'x;{}.png' ) }",
    "escaped": ".a\\:b, #x\\31 23 { margin: 0 }",
    "important_spellings": ".i { margin: 0 ! important; padding: 0!IMPORTANT }",
    "hacks": ".h { _height: 1px; margin: 1px\\9; filter: progid:DXImageTransform.Microsoft.gradient(startColorstr='#80000000', endColorstr='#80000000'); }",
    "empty_rule": ".e { }",
    "nonascii": '.ü::after { content: "→ é" }',
    "media_plain": "@media print { .p { margin: 0 } /* inner */ .q { padding: 0 } }",
    "inner_comments": ".c { /* a */ margin /* b */ : /* c */ 0 /* d */ ; }",
    "namespace": "@namespace svg url(http://www.w3.org/2000/svg);",
    "attr_selector": 'a[href^="http://x;{}"]:not(.b):nth-child(2n+1)::after { top: calc(100% - 2.5e1px) }',
    "supports_plain": "@supports (display: grid) and (not (display: inline-grid)) { .g { display: grid } }",
    "trailing_semicolons": ".t { margin: 0;; padding: 0; }",
    "layer_statement": "@layer reset, base, components;",
    "layer_block": "@layer base { .lb { margin: 0 } @layer inner, outer; }",
    "container_block": "@container card (min-width: 400px) { .cb { padding: 0 } }",
    "media_statementless": "@media print { }",
    # escapes of surrogate code points, zero and beyond U+10FFFF all mean U+FFFD (css-syntax, "consume an escaped code point")
    "surrogate_escape": '.s::before { content: "\\d83d\\de00 \\0 \\110000" }',
}
PT_ORDER = list(PT)
# extra rule kinds only relevant here (comment inside the colour declaration)
G.KINDS.setdefault("comment_in_decl", lambda: G.Item("comment_in_decl", [("margin", "0", False), "/* before */", ("color", "#777 /* tail */", False), "/* after */"]))
G.KINDS.setdefault("comment_in_func_decl", lambda: G.Item("comment_in_func_decl", [("color", "rgb(119, 119, 119) /* was 40 */", False), ("background-color", "#fff", False)]))
G.KINDS.setdefault("comment_before_value", lambda: G.Item("comment_before_value", [("color", "/* 50 */ #777", False)]))
# comments in the places a declaration *node* has no slot for: between the name and the colon, after !important
G.KINDS.setdefault("odd_comment_places", lambda: G.Item("odd_comment_places", ["margin/*k1*/: 0 !important/*k2*/", ("color", "#777", False)]))
G.KINDS.setdefault("root_odd_comments", lambda: G.Item("root_odd_comments", [("color", "#222", False)],
                                                       extra_blocks=("html {\n  margin/*keep1*/: 0 !important/*keep2*/;\n}\n",)))


ROOT_KEYS = (O.sel_key(":root"), O.sel_key("html"))


def masked_tree(text, adjusted, props):
    """Normalised tree with the allowed-to-differ spans replaced by a placeholder."""
    def decls(sel, ds):
        out = []
        last_color = None
        for i, d in enumerate(ds):
            # the declaration that wins the cascade inside the rule: the last !important one, else the last one
            if d[0] == "decl" and d[1].lower() == "color" and (last_color is None or d[3] or not ds[last_color][3]):
                last_color = i
        for i, d in enumerate(ds):
            if d[0] == "decl" and ((sel in adjusted and i == last_color) or (sel in ROOT_KEYS and d[1] in props)):
                # the value may differ, the comments written inside it may not disappear
                out.append(("decl", d[1], ("<MASKED VALUE>",) + tuple(t for t in d[2] if t[0] == "comment" and t[1] != ""), d[3]))
            else:
                out.append(d)
        return tuple(out)

    def rules(items):
        out = []
        for it in items:
            if it[0] == "rule":
                sel = T.norm_tokens([t for t in it[1]], drop_comments=True)   # selector key (token values)
                out.append(("rule", it[1], decls(sel, it[2])))
            elif it[0] == "at" and it[3] is not None and it[3][0] == "rules":
                out.append(("at", it[1], it[2], ("rules", rules(it[3][1]))))
            else:
                out.append(it)
        return tuple(out)

    return rules(T.tree(text))


def first_diff(a, b, path="stylesheet"):
    if a == b:
        return None
    if isinstance(a, tuple) and isinstance(b, tuple) and a and b and isinstance(a[0], str) and a[0] == b[0] and a[0] in ("rule", "at", "rules", "decls"):
        if a[0] == "rule":
            if a[1] != b[1]:
                return "%s: selector %r vs %r" % (path, T.serialize_value(a[1]), T.serialize_value(b[1]))
            return first_diff(a[2], b[2], path + " > rule %s" % T.serialize_value(a[1]))
        if a[0] == "at":
            if a[1] != b[1] or a[2] != b[2]:
                return "%s: at-rule @%s %r vs @%s %r" % (path, a[1], T.serialize_value(a[2]), b[1], T.serialize_value(b[2]))
            return first_diff(a[3], b[3], path + " > @%s" % a[1])
        return first_diff(a[1], b[1], path)
    if isinstance(a, tuple) and isinstance(b, tuple) and (not a or not isinstance(a[0], str)):
        for i, (x, y) in enumerate(zip(a, b)):
            if x != y:
                return first_diff(x, y, path + "[%d]" % i)
        return "%s: %d items in the input, %d in the output (first extra/missing: %r)" % (
            path, len(a), len(b), _short((a[len(b):] or b[len(a):])[0]))
    return "%s: %s  vs  %s" % (path, _short(a), _short(b))


def _short(x):
    if isinstance(x, tuple) and x and x[0] == "decl":
        if x[2] and x[2][0] == "<MASKED VALUE>":
            val = "<adjusted value>" + "".join(" /*%s*/" % t[1] for t in x[2][1:])
        else:
            val = x[2] if isinstance(x[2], str) else T.serialize_value(x[2])
        return "declaration %s: %s%s" % (x[1], val, " !important" if x[3] else "")
    if isinstance(x, tuple) and x and x[0] == "comment":
        return "comment /*%s*/" % x[1]
    if isinstance(x, tuple) and x and x[0] == "rule":
        return "rule %s" % T.serialize_value(x[1])
    return repr(x)[:120]


def _without_comments_after_important(tree):
    def fix(x):
        if isinstance(x, tuple) and x and x[0] == "decl" and x[3] and isinstance(x[2], tuple):
            vals = list(x[2])
            while vals and isinstance(vals[-1], tuple) and vals[-1] and vals[-1][0] in ("comment", "ws"):
                vals.pop()
            return (x[0], x[1], tuple(vals), x[3])
        if isinstance(x, tuple):
            return tuple(fix(y) for y in x)
        return x

    return fix(tree)


def judge_obs(sheet, settings, ob, extra_names=()):
    case = {"kind": "sheet", "spec": sheet.describe(), "settings": list(settings)}
    out = []
    tag = "  [sheet: %s | passthrough %s; settings %s]" % ("+".join("%s@%s" % x for x in sheet.spec), [p[1][:24] for p in sheet.passthrough], list(settings))

    def v(sig, msg, **kw):
        out.append(dict(sig=sig, case=case, msg=msg + tag, **kw))

    res = ob["res"]
    if res["exc"] or res["exit_code"] != 0:
        v("cli/raises_or_nonzero", "cm-colors exited %s (%s)" % (res["exit_code"], res["exc"]))
        return out
    name = ob["name"]
    # (1) inputs untouched, nothing else created
    for n, (data, st) in ob["before"].items():
        if n not in ob["after"]:
            v("input/removed", "input %s no longer exists after the run" % n)
        elif ob["after"][n][0] != data:
            v("input/bytes_changed", "input %s was modified by the run" % n)
        elif ob["after"][n][1] != st:
            v("input/inode_or_mtime_changed", "input %s was rewritten (inode/mtime %s -> %s)" % (n, st, ob["after"][n][1]))
    adjusted = {O.sel_key(c["selector"]) for c in (ob["cards"] or []) if c.get("selector")}
    if ob["counts"]["tuned"] > 0 and not adjusted:
        # the report could not be read (its markup changed): every rule with a text colour may have been adjusted
        adjusted = {O.sel_key(sel) for sel, it, _w in sheet.rules if it.has_text_colour()}
    junk = any(any(isinstance(d, str) and not d.startswith("/*") for d in it.decls) for _, it, _ in sheet.rules)
    dropped = ob["out_text"] is None
    expected_new = set() if dropped else {ob["outname"]}
    if ob["counts"]["tuned"] > 0:
        expected_new.add("cm_colors_report.html")
    new = set(ob["after"]) - set(ob["before"])
    if new - expected_new:
        v("listing/unexpected_file_created", "the run created %s (expected only %s)" % (sorted(new - expected_new), sorted(expected_new)))
    if dropped:
        if junk and "Can not serialize <ParseError" in res["stderr"]:
            v("output/missing/invalid_declaration_in_reserialised_rule", "no %s was written: %s" % (ob["outname"], res["stderr"].splitlines()[0][:160]))
        else:
            v("output/missing/other", "no %s was written; stderr: %s" % (ob["outname"], res["stderr"][:200]))
        return out
    if expected_new - new:
        v("listing/expected_file_missing", "missing after the run: %s" % sorted(expected_new - new))
    # (2) structure preserved
    props = set()
    for sel, it, _w in sheet.rules:
        if O.sel_key(sel) in adjusted and it.last("color"):
            n = O.var_name(it.last("color")[1])
            seen = set()
            while n and n not in seen:
                seen.add(n)
                props.add(n)
                n = O.var_name(sheet.defs_css[n]) if n in sheet.defs_css else None
    a = masked_tree(sheet.text, adjusted, props)
    b = masked_tree(ob["out_text"], adjusted, props)
    if a != b:
        d = first_diff(a, b) or "trees differ"
        kind = "comment_lost" if "comment" in d else "declaration_changed" if "declaration" in d else "structure_changed"
        culprit = next((it.kind for sel, it, _w in sheet.rules if ("rule %s" % sel) in d), "passthrough")
        if _without_comments_after_important(a) == _without_comments_after_important(b):
            # the specific mechanism of a recorded finding: the only thing lost are comments written after '!important'
            # (a re-serialised declaration has no place for them)
            kind, culprit = "comment_lost", "after_important_in_reserialised_rule"
        v("preserve/%s/%s" % (kind, culprit), "the written file differs from the input outside the adjusted colour values: %s" % d)
    # the values that were allowed to change must themselves be valid CSS: a colour CSS Color 3 defines, or a var() reference
    from mc.oracle import css_color

    by_sel_out, _defs = O.output_model(ob["out_text"])
    for sel in sorted(adjusted, key=repr):
        for decls, _path in by_sel_out.get(sel, []):
            d = O.last_decl(decls, "color")
            if d is None:
                continue
            val = T.serialize_value([t for t in d[2] if t[0] != "comment"]).strip()
            if O.var_name(val) is None and css_color.parse(val) is None:
                v("preserve/adjusted_value_not_valid_css", "rule %s was adjusted to %r, which is not a valid CSS colour value" % (sel, val))
    for sel in ROOT_KEYS:
        for decls, _path in by_sel_out.get(sel, []):
            for d in decls:
                if d[0] == "decl" and d[1] in props:
                    val = T.serialize_value([t for t in d[2] if t[0] != "comment"]).strip()
                    if O.var_name(val) is None and css_color.parse(val) is None:
                        v("preserve/adjusted_value_not_valid_css", "custom property %s was set to %r, which is not a valid CSS colour value" % (d[1], val))
    return out


def judge_sheet(spec, settings, passthrough=(), name="s.css"):
    sheet = G.Sheet(spec, passthrough)
    ob = O.run_sheet(sheet.text, settings, name=name)
    vs = judge_obs(sheet, settings, ob)
    if name != "s.css":
        for v in vs:
            v["case"]["name"] = name
    return vs


# input file names for the single-file invocation: the output must be the sibling <stem>_cm.css whatever the stem is
NAMES = ["s.css", "theme_cm.css", "_cm.css", "x.min.css", "a b.css", "cm.css", "s_cm_cm.css"]


def judge_dir(specs, settings):
    """Directory invocation with several generated sheets: every input untouched, one output per input."""
    case = {"kind": "dir", "specs": [[list(x) for x in sp] for sp in specs], "settings": list(settings)}
    sheets = [G.Sheet(sp) for sp in specs]
    out = []
    with R.Workdir() as w:
        names = ["a.css", "sub/b.css", "c.css"][:len(sheets)]
        for n, s in zip(names, sheets):
            w.write(n, s.text)
        before = {n: (open(os.path.join(w.path, n), "rb").read(), O.stat_sig(os.path.join(w.path, n))) for n in w.listing()}
        cwd = R.Workdir()
        try:
            a = O.cli_args(w.path, settings)
            res = R.run_cli(a, cwd.path)
            after = w.listing()
            cwd_after = cwd.listing()
            for n, (data, st) in before.items():
                p = os.path.join(w.path, n)
                if not os.path.exists(p) or open(p, "rb").read() != data or O.stat_sig(p) != st:
                    out.append(dict(sig="input/bytes_changed", case=case, msg="directory run modified input %s" % n))
            junk = any(any(isinstance(d, str) and not d.startswith("/*") for d in it.decls) for s in sheets for _, it, _ in s.rules)
            want = set(before) | {n[:-4] + "_cm.css" for n in before}
            extra = set(after) - want
            if extra:
                out.append(dict(sig="listing/unexpected_file_created", case=case, msg="directory run created %s" % sorted(extra)))
            missing = want - set(after)
            if missing and not (junk and "Can not serialize <ParseError" in res["stderr"]):
                out.append(dict(sig="listing/expected_file_missing", case=case, msg="directory run did not write %s" % sorted(missing)))
            if set(cwd_after) - {"cm_colors_report.html"}:
                out.append(dict(sig="listing/unexpected_file_created", case=case, msg="working directory now holds %s" % cwd_after))
            if res["exc"] or res["exit_code"] != 0:
                out.append(dict(sig="cli/raises_or_nonzero", case=case, msg="cm-colors <dir> exited %s (%s)" % (res["exit_code"], res["exc"])))
        finally:
            cwd.__exit__()
    return out


def judge_case(case):
    if case["kind"] == "path_form":
        return judge_path_form(case["form"], [tuple(x) for x in case["spec"]], tuple(case["settings"]))
    if case["kind"] == "dir":
        return judge_dir([[tuple(x) for x in sp] for sp in case["specs"]], tuple(case["settings"]))
    spec = [tuple(x) for x in case["spec"]["items"]]
    pt = [tuple(x) for x in case["spec"].get("passthrough", [])]
    return judge_sheet(spec, tuple(case["settings"]), pt, case.get("name", "s.css"))


def chunk(job):
    spec, pt, settings_list = job
    out, n = [], 0
    sheet = G.Sheet(spec, pt)
    for st in settings_list:
        ob = O.run_sheet(sheet.text, st)
        vs = judge_obs(sheet, st, ob)
        n += 1
        if vs and len(out) < 80:
            out += vs
    return n, out


PATH_FORMS = ["absolute", "relative", "dot_slash", "dotdot", "dir_with_space", "symlink", "dir_trailing_slash", "dir_relative",
              "via_dir_symlink", "dir_symlink_then_dotdot", "dir_symlink_then_dotdot_abs", "dir_symlink_then_dotdot_dir",
              "output_path_is_symlink", "output_path_is_symlink_dir", "dir_with_file_named_dot_css"]


def judge_path_form(form, spec, settings):
    """The same sheet given to the command under different spellings of its path: the output is always the sibling
    <name>_cm.css of the path that was given, the working directory only ever receives the report."""
    sheet = G.Sheet(spec)
    case = {"kind": "path_form", "form": form, "spec": [list(x) for x in spec], "settings": list(settings)}
    out = []
    with R.Workdir() as w:
        base = os.path.join(w.path, "proj dir" if form == "dir_with_space" else "proj")
        os.makedirs(os.path.join(base, "css"))
        real = os.path.join(base, "css", "s.css")
        open(real, "w").write(sheet.text)
        cwd = os.path.join(base, "work")
        os.makedirs(cwd)
        expect = os.path.join(base, "css", "s_cm.css")
        if form in ("absolute", "dir_with_space"):
            arg = real
        elif form == "relative":
            arg = os.path.join("..", "css", "s.css")
        elif form == "dot_slash":
            cwd = os.path.join(base, "css")
            arg = "./s.css"
        elif form == "dotdot":
            arg = os.path.join("..", "work", "..", "css", "s.css")
        elif form == "symlink":
            os.makedirs(os.path.join(base, "links"))
            arg = os.path.join(base, "links", "l.css")
            os.symlink(real, arg)
            expect = os.path.join(base, "links", "l_cm.css")
        elif form == "via_dir_symlink":
            # work/shared -> ../css : the file is reached through a directory link; its sibling is in the real directory
            os.symlink(os.path.join("..", "css"), os.path.join(cwd, "shared"))
            arg = os.path.join("shared", "s.css")
        elif form in ("dir_symlink_then_dotdot", "dir_symlink_then_dotdot_abs", "dir_symlink_then_dotdot_dir"):
            # work/deep -> ../css/inner : for the OS 'deep/..' is css/, not work/ (a lexical clean-up of the path gets it wrong)
            os.makedirs(os.path.join(base, "css", "inner"))
            os.symlink(os.path.join("..", "css", "inner"), os.path.join(cwd, "deep"))
            arg = os.path.join("deep", "..", "s.css")
            if form == "dir_symlink_then_dotdot_abs":
                arg = os.path.join(cwd, arg)
            if form == "dir_symlink_then_dotdot_dir":
                arg = os.path.join("deep", "..")
        elif form in ("output_path_is_symlink", "output_path_is_symlink_dir"):
            # something left a link where the output goes (pointing at another file of the project): writing the output must
            # not write *through* it
            bystander = os.path.join(base, "css", "notes.txt")
            open(bystander, "w").write("KEEP ME\n")
            os.symlink("notes.txt", expect)
            arg = real if form == "output_path_is_symlink" else os.path.join(base, "css")
        elif form == "dir_with_file_named_dot_css":
            # a file whose whole name is ".css" (no stem): a single-file invocation ignores it; a directory run must not
            # turn it into an output that is not <name>_cm.css
            open(os.path.join(base, "css", ".css"), "w").write(".dot { color: #777; }\n")
            arg = os.path.join(base, "css")
        elif form == "dir_trailing_slash":
            arg = os.path.join(base, "css") + os.sep
        elif form == "dir_relative":
            arg = os.path.join("..", "css")
        before_real = open(real, "rb").read()
        mode, premium, dbg = settings
        a = [arg, "--mode", str(mode)] + (["--premium"] if premium else []) + (["--default-bg", dbg] if dbg else [])
        res = R.run_cli(a, cwd)
        files = []
        for dp, _dn, fn in os.walk(base):
            files += [os.path.relpath(os.path.join(dp, f), base) for f in fn]
        tuned = R.parse_stdout(res["stdout"])[0]["tuned"]
        allowed = {os.path.relpath(real, base), os.path.relpath(expect, base)}
        if form == "symlink":
            allowed.add(os.path.relpath(arg, base))
        if tuned:
            allowed.add(os.path.relpath(os.path.join(cwd, "cm_colors_report.html"), base))
        if res["exc"] or res["exit_code"] != 0:
            out.append(dict(sig="path/cli_raises", case=case, msg="cm-colors %s (cwd %s) exited %s: %s" % (arg, os.path.relpath(cwd, base), res["exit_code"], res["exc"])))
        if open(real, "rb").read() != before_real:
            out.append(dict(sig="input/bytes_changed", case=case, msg="path form %s: the input was modified" % form))
        if form == "dir_with_file_named_dot_css":
            allowed.add(os.path.join("css", ".css"))
        if form.startswith("output_path_is_symlink"):
            allowed.add(os.path.relpath(bystander, base))
            if open(bystander).read() != "KEEP ME\n":
                out.append(dict(sig="input/other_file_overwritten_through_link", case=case,
                                msg="path form %s: %s was a link to notes.txt and the run wrote the stylesheet into notes.txt" % (form, os.path.relpath(expect, base))))
        junk = any(any(isinstance(d, str) and not d.startswith("/*") for d in it.decls) for _, it, _ in sheet.rules)
        if not os.path.exists(expect) and not junk:
            out.append(dict(sig="path/output_not_beside_input", case=case, msg="path form %s (%s): no %s; files now: %s"
                            % (form, arg, os.path.relpath(expect, base), sorted(files))))
        extra = set(files) - allowed
        if extra:
            out.append(dict(sig="listing/unexpected_file_created", case=case, msg="path form %s (%s): unexpected files %s" % (form, arg, sorted(extra))))
    return out


def chunk_paths(job):
    form, spec, st = job
    return 1, judge_path_form(form, spec, st)


def chunk_names(job):
    spec, name, st = job
    return 1, judge_sheet(spec, st, (), name)


def chunk_dir(job):
    specs, st = job
    return 1, judge_dir(specs, st)


def jobs(ctx):
    q = ctx.quick
    S2 = [(1, False, None), (2, True, "#1e1e1e")]
    S1 = [(1, False, None)]
    rot = ctx.phase * 3
    P = PT_ORDER[rot % len(PT_ORDER):] + PT_ORDER[:rot % len(PT_ORDER)]
    out = []
    centre = ["lit_fail", "var_t", "root_literal", "with_noise", "important", "comment_in_decl", "comment_in_func_decl", "comment_before_value", "odd_comment_places"]
    # (a) every passthrough item alone, before and after one adjusted rule
    for p in P:
        out.append(([("readable", "none")], [(0, PT[p])], S1))
        for c in centre:
            out.append(([(c, "none")], [(0, PT[p])], S2))
            out.append(([(c, "none")], [(1, PT[p])], S1))
            out.append(([(c, "media")], [(0, PT[p])], S1) if c not in ("root_literal",) else ([(c, "none")], [(0, PT[p]), (1, PT[p])], S1))
    # (b) ordered pairs of passthrough items around / between two rule items
    rules2 = [("lit_fail", "var_t"), ("var_t", "lit_own_bg"), ("root_literal", "var_t")] if q else \
        [(a, b) for a in centre for b in ("lit_fail", "var_t", "lit_own_bg", "unfixable", "sp_rgba", "repeated")]
    pairs = list(itertools.product(P, repeat=2))
    for p1, p2 in pairs:
        for a, b in rules2:
            out.append(([(a, "none"), (b, "none")], [(0, PT[p1]), (1, PT[p2])], S1))
            if not q:
                out.append(([(a, "none"), (b, "supports")], [(1, PT[p1]), (2, PT[p2])], S1))
    # (c) every rule item alone and every ordered pair (no passthrough): structure of modified rules
    K = G.ORDER + ["comment_in_decl", "comment_in_func_decl", "comment_before_value", "odd_comment_places", "root_odd_comments"]
    for k in K:
        for wname in G.WRAPPERS:
            if k in ("root_literal", "html_literal") and wname != "none":
                continue
            out.append(([(k, wname)], [], S2 if q else O.SETTINGS))
    for a, b in (G.quick_pairs(K) if q else itertools.product(K, repeat=2)):
        if a == b and a in ("root_literal", "html_literal"):
            continue
        out.append(([(a, "none"), (b, "none")], [], S1))
    if not q:
        for tr in itertools.product(centre, ["var_t_other_bg", "var_chained", "unfixable", "bg_var"], ["lit_fail", "html_literal", "sp_hsl"]):
            out.append(([(x, "none") for x in tr], [(1, PT["comment_top"]), (2, PT["strings"])], S1))
    return out


def run(ctx):
    ctx.cov["rule"] = (
        "generated stylesheets: rule items (C08's alphabet + a comment inside the colour declaration) interleaved with a %d-item "
        "passthrough alphabet (comments, @charset/@import/@font-face/@keyframes/@page/unknown at-rules, strings and url() holding braces, "
        "semicolons and comment markers, escapes, !important spellings, hacks, empty rule, non-ASCII, nested rule-less at-rules) in "
        "every order of <= 2 passthrough items around <= 2 (thorough: 3) rule items x settings; single-file and directory invocation. "
        "oracle: inputs byte/inode/mtime identical, only <name>_cm.css (+ the report when something was adjusted) created, and the "
        "normalised token trees of input and output equal outside the masked colour values of adjusted rules / the custom "
        "properties they reference. non-trivial = runs whose sheet holds a passthrough item or an adjusted rule." % len(PT)
    )
    J = jobs(ctx)
    n = 0
    for cnt, vs in ctx.pmap_forked(chunk, J, chunksize=4):
        n += cnt
        ctx.add_violations(vs)
    ctx.sub("single_file_runs", states=n, transitions=n, evaluations=n, traces=n, distinct_nontrivial=n, exhaustive=True, distinct_sheets=len(J))
    s = G.Sheet([("var_t", "none"), ("lit_own_bg", "none")], [(0, PT["strings"]), (1, PT["fontface"])])
    ctx.sample({"subcheck": "sheet", "css": s.text, "settings": [1, False, None]})
    nj = [(spec, nm, st) for nm in NAMES for spec in ([("lit_fail", "none")], [("var_t", "none"), ("readable", "none")], [("readable", "none")], [("unfixable", "none")])
          for st in ((1, False, None), (2, True, "#1e1e1e"))]
    k = 0
    for cnt, vs in ctx.pmap_forked(chunk_names, nj, chunksize=2):
        k += cnt
        ctx.add_violations(vs)
    ctx.sub("input_file_names", states=k, transitions=k, evaluations=k, traces=k, distinct_nontrivial=k, exhaustive=True, names=NAMES)
    ctx.sample({"subcheck": "name", "file": "theme_cm.css", "invocation": "cm-colors path/to/theme_cm.css"})
    pj = [(f, sp, st) for f in PATH_FORMS for sp in ([("lit_fail", "none")], [("var_t", "none"), ("readable", "none")], [("readable", "none")])
          for st in ((1, False, None), (2, True, "#1e1e1e"))]
    kp = 0
    for cnt, vs in ctx.pmap_forked(chunk_paths, pj, chunksize=2):
        kp += cnt
        ctx.add_violations(vs)
    ctx.sub("invocation_path_forms", states=kp, transitions=kp, evaluations=kp, traces=kp, distinct_nontrivial=kp, exhaustive=True, forms=PATH_FORMS)
    ctx.sample({"subcheck": "path_form", "form": "symlink", "arg": "proj/links/l.css -> proj/css/s.css"})
    dj = []
    base = [[("lit_fail", "none")], [("var_t", "none"), ("readable", "none")], [("unfixable", "none")], [("root_literal", "none")], [("bg_only", "none")]]
    for a, b in itertools.permutations(base, 2):
        dj.append(([a, b], (1, False, None)))
    for tr in itertools.permutations(base, 3):
        if not ctx.quick or tr[0] == base[0]:
            dj.append((list(tr), (2, True, None)))
    m = 0
    for cnt, vs in ctx.pmap_forked(chunk_dir, dj, chunksize=2):
        m += cnt
        ctx.add_violations(vs)
    ctx.sub("directory_runs", states=m, transitions=m, evaluations=m, traces=m, distinct_nontrivial=m, exhaustive=True)
    ctx.sample({"subcheck": "dir", "files": ["a.css", "sub/b.css", "c.css"], "settings": [2, True, None]})
    ctx.assumptions += ["comparison by token value (mc/oracle/css_tokens.py): quote style, escape spelling and U+ range spelling are not differences",
                        "top-level <!-- / --> is not in the alphabet (CSS ignores it there and tinycss2 drops it)"]
