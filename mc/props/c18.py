"""C18 - CLI batches: per-file isolation, bad files skipped, outputs never re-consumed."""
import itertools
import os

from mc.cli import observe as O
from mc.cli import run as R
from mc.explore.forked import forked

GOOD = {
    "defines_t_fail": ":root {\n  --t: #777;\n}\n.a {\n  color: var(--t);\n}\n",
    "defines_t_ok": ":root {\n  --t: #222;\n}\n.b {\n  color: var(--t);\n}\n.c {\n  color: #888;\n}\n",
    "uses_t_undefined": ".d {\n  color: var(--t, #999);\n}\n.e {\n  color: var(--t);\n  background-color: #fff;\n}\n",
    "no_vars": ".f {\n  color: #777;\n  background-color: #fff;\n}\n.g {\n  color: #000;\n}\n@media print {\n  .h { color: #8a8a8a }\n}\n",
}
GOOD["same_pair_rgb_notation"] = ".n {\n  color: rgb(119, 119, 119);\n  background-color: white;\n}\n"
GOOD_ORDER = list(GOOD)
FAULTS = ["non_utf8", "directory", "dangling_link", "unserialisable", "empty", "stale_output", "fails_late_defines_t", "link_to_good", "good_in_odd_place"]
# unusual but valid files: processed like any other, and never allowed to colour the files around them
ODD = {
    "bom_good": "\ufeff.q {\n  color: #777;\n  background-color: #fff;\n}\n",
    "charset_good": '@charset "utf-8";\n.q {\n  color: #777;\n}\n',
    "crlf_good": ".q {\r\n  color: #777;\r\n}\r\n.r { color: var(--t, #888) }\r\n",
    "no_adjustable": ".p {\n  margin: 0;\n}\n",
    "only_comment": "/* nothing here */\n",
}
FAULTS += list(ODD)
FAULTS += ["link_to_an_output"]   # <name>.css -> a_cm.css: an output reached under an input-looking name is still not an input
LINKED = ".k {\n  color: var(--t, #888);\n  background-color: #fff;\n}\n"   # reached through a symlink / in a hidden, deeply nested file
LATE = ":root {\n  --t: #222;\n}\n.v {\n  color: var(--t);\n}\n.u {\n  *zoom: 1;\n  color: #777;\n}\n"   # fails after its :root was indexed
FAULT_POS = ["0.css", "b.css", "n.css", "sub/y.css", "sub/deep/er/.hidden.css"]
GOOD_POS = ["a.css", "m_cmyk.css", "sub/z_cm_v2.css"]   # '_cm' inside a stem does not make a file an output
STALE = ("stale_cm.css", ".old {\n  color: #777;\n}\n")   # an output of some earlier run: never an input, never touched
SETTINGS = (1, False, None)


def make_fault(w, rel, kind):
    p = os.path.join(w.path, rel)
    os.makedirs(os.path.dirname(p), exist_ok=True)
    if kind == "non_utf8":
        open(p, "wb").write(b".x { color: #777; }\n/* \xff\xfe\xfa */\n")
    elif kind == "directory":
        os.makedirs(p)
    elif kind == "dangling_link":
        os.symlink(os.path.join(w.path, "does-not-exist.css"), p)
    elif kind == "unserialisable":
        open(p, "w").write(".u {\n  *zoom: 1;\n  color: #777;\n}\n")
    elif kind == "empty":
        open(p, "w").close()
    elif kind == "fails_late_defines_t":
        open(p, "w").write(LATE)
    elif kind == "good_in_odd_place":
        open(p, "w").write(LINKED)
    elif kind == "link_to_good":
        target = os.path.join(w.path, "linked-target.txt")   # not a .css name: only reachable through the link
        open(target, "w").write(LINKED)
        os.symlink(target, p)
    elif kind == "link_to_an_output":
        os.symlink(os.path.join(w.path, "a_cm.css"), p)   # dangling until (unless) a.css has been processed
    elif kind in ODD:
        open(p, "wb").write(ODD[kind].encode("utf-8"))
    elif kind == "stale_output":
        q = os.path.join(os.path.dirname(p), STALE[0])
        open(q, "w").write(STALE[1])


def snapshot(root):
    """Canonical directory state: sorted (relative path, kind, bytes)."""
    out = []
    for dp, dn, fn in os.walk(root):
        for n in sorted(dn + fn):
            p = os.path.join(dp, n)
            rel = os.path.relpath(p, root)
            if os.path.islink(p):
                out.append((rel, "link", os.readlink(p).encode()))
            elif os.path.isdir(p):
                out.append((rel, "dir", b""))
            else:
                out.append((rel, "file", open(p, "rb").read()))
    return sorted(out)


_SOLO = {}


def solo_output(text, name, settings):
    """Bytes of <name>_cm.css when the tool runs on this file alone in an empty directory (None = no output)."""
    k = (text, os.path.basename(name), settings)
    if k not in _SOLO:
        status, res = forked(_solo_here, text, os.path.basename(name), settings)
        if status != "ok":
            raise RuntimeError("solo run failed: %s" % res)
        _SOLO[k] = res
    return _SOLO[k]


def _solo_here(text, name, settings):
    with R.Workdir() as w, R.Workdir() as cwd:
        p = w.write(name, text)
        R.run_cli(O.cli_args(p, settings), cwd.path)
        outp = p[:-4] + "_cm.css"
        return open(outp, "rb").read() if os.path.exists(outp) else None


def _batch_here(goods, faults, settings, perm):
    """(forked child) build the tree, run the command on it twice, return every observation."""
    from cm_colors.cli import main as M

    with R.Workdir() as w, R.Workdir() as cwd:
        for rel, key in goods:
            w.write(rel, GOOD[key])
        for rel, kind in faults:
            make_fault(w, rel, kind)
        before = snapshot(w.path)
        orig = getattr(M, "get_css_files", None)
        if perm is not None:
            if orig is None:
                return None

            def permuted(path, _orig=orig, _perm=perm):
                files = list(_orig(path))
                files.sort(key=lambda p: str(p))
                if len(_perm) != len(files):
                    return iter(files)
                return iter([files[i] for i in _perm])

            M.get_css_files = permuted
        res1 = R.run_cli(O.cli_args(w.path, settings), cwd.path)
        after1 = snapshot(w.path)
        res2 = R.run_cli(O.cli_args(w.path, settings), cwd.path)
        after2 = snapshot(w.path)
        root = w.path
    strip = lambda r: dict(r, stderr=r["stderr"].replace(root + os.sep, ""), stdout=r["stdout"].replace(root + os.sep, ""))
    return before, after1, after2, strip(res1), strip(res2)


def judge_tree(goods, faults, settings=SETTINGS, perm=None):
    """goods: [(rel path, good key)], faults: [(rel path, fault kind)], perm: traversal permutation (indices) or None."""
    case = {"kind": "tree", "goods": [list(g) for g in goods], "faults": [list(f) for f in faults], "settings": list(settings),
            "perm": list(perm) if perm is not None else None}
    tag = "  [tree: %s + faults %s%s]" % (["%s=%s" % tuple(g) for g in goods], ["%s=%s" % tuple(f) for f in faults],
                                           "; traversal order %s" % (list(perm),) if perm is not None else "")
    out = []

    def v(sig, msg):
        out.append(dict(sig=sig, case=case, msg=msg + tag))

    expected = {}
    for rel, key in goods:
        expected[rel[:-4] + "_cm.css"] = solo_output(GOOD[key], rel, settings)
    for rel, kind in faults:
        if kind == "empty":
            expected[rel[:-4] + "_cm.css"] = solo_output("", rel, settings)
        elif kind == "unserialisable":
            expected[rel[:-4] + "_cm.css"] = solo_output(".u {\n  *zoom: 1;\n  color: #777;\n}\n", rel, settings)
        elif kind == "fails_late_defines_t":
            expected[rel[:-4] + "_cm.css"] = solo_output(LATE, rel, settings)
        elif kind in ("link_to_good", "good_in_odd_place"):
            expected[rel[:-4] + "_cm.css"] = solo_output(LINKED, rel, settings)
        elif kind in ODD:
            expected[rel[:-4] + "_cm.css"] = solo_output(ODD[kind], rel, settings)
        else:
            expected[rel[:-4] + "_cm.css"] = None
    status, obs = forked(_batch_here, goods, faults, settings, perm)
    if status != "ok":
        raise RuntimeError("batch run failed in the child: %s" % obs)
    if obs is None:
        return None
    before, after1, after2, res1, res2 = obs
    if True:
        for res, which in ((res1, "first"), (res2, "second")):
            if res["exc"] or res["exit_code"] != 0:
                v("batch/run_aborted", "the %s directory run exited %s (%s)" % (which, res["exit_code"], res["exc"]))
        d1 = {rel: (k, data) for rel, k, data in after1}
        # inputs untouched
        for rel, k, data in before:
            if d1.get(rel) != (k, data):
                v("batch/input_changed", "input %s changed during the run" % rel)
        b_names = {rel for rel, _k, _d in before}
        for name, want in sorted(expected.items()):
            got = d1.get(name)
            got_bytes = got[1] if got and got[0] == "file" else None
            if want is None and got is not None:
                v("batch/output_for_bad_file", "an output %s exists for a file that cannot be processed" % name)
            elif want is not None and got_bytes is None:
                v("batch/output_missing", "%s was not written although the file alone produces one (other files: %s)" % (name, sorted(b_names)))
            elif want is not None and got_bytes != want:
                v("batch/output_differs_from_solo_run", "%s differs from what the tool writes for that file alone:\n--- alone\n%s\n--- in the batch\n%s"
                  % (name, want.decode("utf-8", "replace")[:300], got_bytes.decode("utf-8", "replace")[:300]))
        extra = set(d1) - b_names - set(expected)
        if extra:
            v("batch/unexpected_file", "the run created %s" % sorted(extra))
        # bad files reported
        for rel, kind in faults:
            if kind in ("non_utf8", "directory", "dangling_link", "unserialisable", "fails_late_defines_t"):
                if not any(l.startswith("Error processing") and rel in l for l in res1["stderr"].splitlines()):
                    v("batch/bad_file_not_reported", "no 'Error processing' line for %s (%s)" % (rel, kind))
        # repeating the run reproduces the same tree
        if after2 != after1:
            d2 = {rel: (k, data) for rel, k, data in after2}
            new = sorted(set(d2) - set(d1))
            changed = sorted(r for r in d1 if r in d2 and d1[r] != d2[r])
            v("batch/second_run_differs", "repeating the run changed the tree: new %s, changed %s" % (new, changed))
    return out


def judge_case(case):
    return judge_tree([tuple(g) for g in case["goods"]], [tuple(f) for f in case["faults"]], tuple(case["settings"]),
                      tuple(case["perm"]) if case.get("perm") is not None else None) or []


def chunk(job):
    goods, faults, settings, perms = job
    out, n, skipped = [], 0, 0
    for perm in perms:
        vs = judge_tree(goods, faults, settings, perm)
        if vs is None:
            skipped += 1
            continue
        n += 1
        if vs and len(out) < 6:
            out += vs
    return n, out, skipped


def trees(ctx):
    rot = ctx.phase % len(GOOD_ORDER)
    G = GOOD_ORDER[rot:] + GOOD_ORDER[:rot]
    layouts = []
    for k in (1, 2, 3):
        for paths in itertools.combinations(GOOD_POS, k):
            for keys in itertools.permutations(G, k):
                layouts.append(list(zip(paths, keys)))
    singles = [[]] + [[(pos, kind)] for pos in FAULT_POS for kind in FAULTS if not (ctx.quick and kind in ODD and pos not in FAULT_POS[:2])]
    doubles = []
    if not ctx.quick:
        # every pair of the nine classic fault kinds on different positions; the unusual-but-valid kinds and the link kinds pair up
        # with a fault of their own kind and with a non-UTF-8 file (the fault whose handling touches the most shared state)
        classic = [k for k in FAULTS if k not in ODD and k != "link_to_an_output"]
        cells = [(pos, kind) for pos in FAULT_POS for kind in classic]
        for a, b in itertools.combinations(cells, 2):
            if a[0] != b[0]:
                doubles.append([a, b])
        for kind in list(ODD) + ["link_to_an_output"]:
            for a, b in (("0.css", "b.css"), ("0.css", "n.css"), ("b.css", "sub/y.css")):
                doubles.append([(a, kind), (b, kind)])
                doubles.append([(a, kind), (b, "non_utf8")])
                doubles.append([(a, "non_utf8"), (b, kind)])
    if ctx.quick:
        # two faults of the same kind around / before the good files (only with two-file layouts in the quick tier)
        for kind in ("non_utf8", "dangling_link", "unserialisable", "fails_late_defines_t"):
            for a, b in (("0.css", "b.css"), ("0.css", "n.css"), ("b.css", "n.css")):
                doubles.append([(a, kind), (b, kind)])
    return layouts, singles, doubles


def run(ctx):
    ctx.cov["rule"] = (
        "directory trees: every injective placement of <= 3 of 4 good stylesheets (two define the same custom property with "
        "different values, one uses it without defining it, one has no variables) on {a.css, m.css, sub/z.css} x every placement of "
        "<= %d fault files (non-UTF-8 bytes, directory named *.css, dangling link, unserialisable sheet, empty file) on names sorting "
        "before / between / after them and in sub/; transitions: run the command on the directory twice; plus every permutation of the "
        "traversal order (seam: cli.main.get_css_files) on the 3-file trees. differential oracle: each output byte-identical to the solo "
        "run of that file, bad files reported and skipped, exit 0, inputs untouched, second run leaves the tree identical. "
        "non-trivial = trees with >= 2 files." % (1 if ctx.quick else 2)
    )
    layouts, singles, doubles = trees(ctx)
    settings_list = [SETTINGS] if ctx.quick else [SETTINGS, (2, True, "#1e1e1e")]
    jobs = []
    for lay in layouts:
        for f in singles + doubles:
            if ctx.quick and len(f) == 2 and len(lay) != 2:
                continue
            if not ctx.quick and len(f) == 2 and len(lay) == 3:
                continue   # fault pairs around one and two good files (the three-file layouts get every single fault)
            if ctx.quick and len(lay) == 3 and f and f[0][0] not in ("b.css", FAULT_POS[-1]):
                continue   # quick tier: full layouts get faults between the files and in the nested hidden place only
            # fault pairs are explored under the default settings only (the second settings column is for single faults)
            for st in (settings_list[:1] if len(f) == 2 else settings_list):
                jobs.append((lay, f, st, [None]))
    n = 0
    for cnt, vs, _sk in ctx.pmap(chunk, jobs, chunksize=8):
        n += cnt
        ctx.add_violations(vs)
    ctx.sub("trees_two_runs", states=n, transitions=2 * n, evaluations=n, traces=2 * n, distinct_nontrivial=n - 4, exhaustive=True,
            layouts=len(layouts), fault_placements=len(singles) + len(doubles))
    ctx.sample({"subcheck": "tree", "goods": [["a.css", "defines_t_fail"], ["sub/z.css", "uses_t_undefined"]], "faults": [["b.css", "non_utf8"]]})
    # traversal order permutations on the full (3 good files) layouts with one fault
    pj = []
    full = [lay for lay in layouts if len(lay) == 3]
    if ctx.quick:
        full = full[::4]
    order_kinds = FAULTS if not ctx.quick else ["non_utf8", "unserialisable", "fails_late_defines_t", "directory"]
    for lay in full:
        for kind in order_kinds:
            nfiles = 4
            perms = list(itertools.permutations(range(nfiles)))
            pj.append((lay, [("b.css", kind)], SETTINGS, perms))
    m = sk = 0
    for cnt, vs, s in ctx.pmap(chunk, pj, chunksize=1):
        m += cnt
        sk += s
        ctx.add_violations(vs)
    if sk and not m:
        ctx.skip("traversal_order_permutations", "cli.main.get_css_files seam is absent")
    else:
        ctx.sub("traversal_order_permutations", states=m, transitions=2 * m, evaluations=m, traces=2 * m, distinct_nontrivial=m, exhaustive=True,
                trees=len(pj), permutations_per_tree=24)
        ctx.sample({"subcheck": "tree+order", "goods": [list(x) for x in full[0]], "faults": [["b.css", "directory"]], "perm": [3, 1, 0, 2]})
    ctx.assumptions += ["checks run as root, so permission faults cannot be produced; 'unreadable' is represented by a directory and a "
                        "dangling link carrying a .css name"]
