"""C13 - translucent text is judged as it will be seen over its own background."""
from fractions import Fraction as F

from mc.lattice import cube
from mc.oracle import css_color, wcag

ALPHAS = ["0", "0.004", "0.01", "0.25", "0.5", "0.75", "0.99", "0.996", "1", ".5", ".8", "0.50", "1.0", "0.0",
          "1e-05", "5e-1", "1E-2", "0.00001", "0.99999"]   # str() of a small float is in exponent notation, which CSS numbers allow
HSL_FG = ["hsla(210, 65%%, 20%%, %s)", "hsla(0, 100%%, 50%%, %s)", "hsla(120, 40%%, 75%%, %s)", "hsla(300, 10%%, 5%%, %s)",
          "hsla(48, 90%%, 60%%, %s)", "hsla(-90, 55%%, 35%%, %s)"]


def bgs(phase):
    p = phase
    return [(255, 255, 255), (0, 0, 0), (30 + p, 30, 30), (200, 16 + p, 46), (12, 200, 140 + p), (250, 240, 20 + p), (115, 83, 215 - p), (128, 128, 128 + p)]


def _exact_fg(spell_kind, fg, a_txt):
    if spell_kind == "hsla":
        r, g, b, _a = css_color.parse(fg % "0.5")   # the colour from the reference parser, the alpha from its own text
        return (r, g, b), F(a_txt)                   # (a CSS number may use exponent notation; Fraction reads it exactly)
    return tuple(F(x) for x in fg), F(a_txt)


def _value(spell_kind, fg, a_txt):
    if spell_kind == "rgba":
        return "rgba(%d, %d, %d, %s)" % (tuple(fg) + (a_txt,))
    if spell_kind == "hsla":
        return fg % a_txt
    a = float(a_txt) if a_txt not in ("0", "1") else int(a_txt)
    if spell_kind in ("tuple", "list") and a_txt in (".5", ".8", "0.50", "1.0", "0.0"):
        return None  # spelling variants only exist for strings
    if spell_kind == "tuple":
        return tuple(fg) + (a,)
    return list(fg) + [a]


def judge_text(spell_kind, fg, a_txt, bg, fix=False):
    from cm_colors import ColorPair

    bg = tuple(bg)
    val = _value(spell_kind, fg, a_txt)
    if val is None:
        return []
    case = {"kind": "text", "spell": spell_kind, "fg": fg if isinstance(fg, str) else list(fg), "alpha": a_txt, "bg": list(bg), "fix": fix}
    try:
        pair = ColorPair(val, bg)
        got, gbg = pair.text.rgb, pair.bg.rgb
        label = pair.is_readable
    except Exception as e:  # noqa
        return [dict(sig="composite/raises", case=case, observed=repr(e), msg="ColorPair(%r, %s) raised %r" % (val, bg, e))]
    if got is None or gbg != bg:
        return [dict(sig="composite/rejected", case=case, observed=[repr(got), repr(gbg), pair.errors],
                     msg="ColorPair(%r, %s): text.rgb=%r bg.rgb=%r errors=%s" % (val, bg, got, gbg, pair.errors))]
    exf, a = _exact_fg(spell_kind, fg, a_txt)
    ex = css_color.blend(exf, a, bg)
    out = []
    if any(abs(F(v) - e) > F(3, 2) for v, e in zip(got, ex)):
        out.append(dict(sig="composite/not_over_own_background", case=case, observed=list(got), expected=[float(x) for x in ex],
                        msg="ColorPair(%r, %s).text.rgb = %s, exact source-over blend over that background is %s"
                            % (val, bg, got, [round(float(x), 2) for x in ex])))
    if a == 0 and tuple(got) != bg:
        out.append(dict(sig="composite/alpha0_not_background", case=case, observed=list(got), expected=list(bg),
                        msg="ColorPair(%r, %s).text.rgb = %s with alpha 0" % (val, bg, got)))
    if a == 1 and not all(v in css_color.nearest8(e) for v, e in zip(got, exf)):
        out.append(dict(sig="composite/alpha1_not_colour", case=case, observed=list(got), expected=[float(x) for x in exf],
                        msg="ColorPair(%r, %s).text.rgb = %s with alpha 1" % (val, bg, got)))
    r = wcag.ratio(got, bg)
    for large in (False, True):
        if wcag.level_is_decidable(r, large):
            lab = ColorPair(val, bg, large_text=large).is_readable
            want = wcag.LABEL[wcag.level(r, large)]
            if lab != want:
                out.append(dict(sig="composite/readability_not_on_composite", case=case, observed=lab, expected=want,
                                msg="ColorPair(%r, %s, large=%s).is_readable = %r; the composite %s has ratio %.4f => %r"
                                    % (val, bg, large, lab, got, r, want)))
    if fix:
        for vr in (False, True):
            need = wcag.minimum(False, vr)
            try:
                res, ok = ColorPair(val, bg).make_readable(very_readable=vr)
            except Exception as e:  # noqa
                out.append(dict(sig="composite/raises", case=case, observed=repr(e), msg="make_readable on (%r, %s) raised %r" % (val, bg, e)))
                continue
            rgb = css_color.read_unique(res) if isinstance(res, str) else None
            if rgb is None or not isinstance(res, str) or not res.startswith("#"):
                out.append(dict(sig="composite/fix_result_not_hex", case=case, observed=repr(res), msg="make_readable on (%r, %s) returned %r" % (val, bg, res)))
                continue
            m0 = wcag.meets(r, need)
            if m0 is True and (rgb != tuple(got) or ok is not True):
                out.append(dict(sig="composite/readable_composite_changed", case=case, observed=[res, ok], expected=list(got),
                                msg="(%r on %s) composites to %s, ratio %.3f >= %.1f, but make_readable(very_readable=%s) = (%r, %s)"
                                    % (val, bg, got, r, need, vr, res, ok)))
            m1 = wcag.meets(wcag.ratio(rgb, bg), need)
            if m1 is not None and m1 != ok:
                out.append(dict(sig="composite/verdict_not_on_own_background", case=case, observed=[res, ok], expected=m1,
                                msg="(%r on %s) -> (%r, %s) but the returned colour has ratio %.3f against that background (minimum %.1f)"
                                    % (val, bg, res, ok, wcag.ratio(rgb, bg), need)))
    return out


def judge_bg(spell_kind, fg, a_txt, text):
    """Translucent *background*: composited over white; text (opaque or translucent) over that."""
    from cm_colors import ColorPair

    val = _value(spell_kind, fg, a_txt)
    if val is None:
        return []
    case = {"kind": "bg", "spell": spell_kind, "fg": fg if isinstance(fg, str) else list(fg), "alpha": a_txt,
            "text": text if isinstance(text, str) else list(text)}
    tv = text if isinstance(text, str) else tuple(text)
    try:
        pair = ColorPair(tv, val)
        gbg, gt = pair.bg.rgb, pair.text.rgb
    except Exception as e:  # noqa
        return [dict(sig="composite/raises", case=case, observed=repr(e), msg="ColorPair(%r, %r) raised %r" % (tv, val, e))]
    if gbg is None or gt is None:
        return [dict(sig="composite/rejected", case=case, observed=pair.errors, msg="ColorPair(%r, %r) invalid: %s" % (tv, val, pair.errors))]
    exf, a = _exact_fg(spell_kind, fg, a_txt)
    ex = css_color.blend(exf, a, (255, 255, 255))
    out = []
    if any(abs(F(v) - e) > F(3, 2) for v, e in zip(gbg, ex)):
        out.append(dict(sig="composite/background_not_over_white", case=case, observed=list(gbg), expected=[float(x) for x in ex],
                        msg="ColorPair(%r, %r).bg.rgb = %s, exact blend over white is %s" % (tv, val, gbg, [round(float(x), 2) for x in ex])))
    if isinstance(tv, str):
        r, g, b, ta = css_color.parse(tv)
        ext = css_color.blend((r, g, b), ta, gbg)
        if any(abs(F(v) - e) > F(3, 2) for v, e in zip(gt, ext)):
            out.append(dict(sig="composite/not_over_own_background", case=case, observed=list(gt), expected=[float(x) for x in ext],
                            msg="ColorPair(%r, %r).text.rgb = %s, blend over the pair's background %s is %s"
                                % (tv, val, gt, gbg, [round(float(x), 2) for x in ext])))
    rr = wcag.ratio(gt, gbg)
    if wcag.level_is_decidable(rr, False):
        want = wcag.LABEL[wcag.level(rr, False)]
        if pair.is_readable != want:
            out.append(dict(sig="composite/readability_not_on_composite", case=case, observed=pair.is_readable, expected=want,
                            msg="ColorPair(%r, %r).is_readable = %r, composites %s on %s have ratio %.4f" % (tv, val, pair.is_readable, gt, gbg, rr)))
    return out


def judge_case(case):
    if case["kind"] == "chunk":
        j = case["job"]
        job = (j[0], j[1], j[2] if isinstance(j[2], str) else tuple(j[2]), j[3], [o if isinstance(o, str) else tuple(o) for o in j[4]], j[5])
        return [v for v in chunk(job)[1] if v["sig"] == case.get("expect_sig", v["sig"])]
    fg = case["fg"]
    if case["kind"] == "text":
        return judge_text(case["spell"], fg, case["alpha"], case["bg"], case.get("fix", False))
    return judge_bg(case["spell"], fg, case["alpha"], case["text"])


def chunk(job):
    kind, spell, fg, alphas, others, fix_stride = job
    out, n = [], 0
    for a in alphas:
        for i, o in enumerate(others):
            n += 1
            if kind == "text":
                vs = judge_text(spell, fg, a, o, fix=(fix_stride and (i + len(a)) % fix_stride == 0))
            else:
                vs = judge_bg(spell, fg, a, o)
            if vs and len(out) < 8:
                for v in vs:
                    v["chunk_case"] = {"kind": "chunk", "job": [kind, spell, fg if isinstance(fg, str) else list(fg), list(alphas),
                                                              [o if isinstance(o, str) else list(o) for o in others], fix_stride],
                                       "expect_sig": v["sig"]}
                out += vs
    return n, out


def run(ctx):
    ctx.cov["rule"] = (
        "every (foreground, alpha, opaque background) of cube(4) x 9 alphas (incl. 0, 1 and their neighbours) x 8 backgrounds "
        "(never only white) in each translucent spelling (rgba() string, hsla() string, RGBA tuple, RGBA list); translucent "
        "backgrounds in the same spellings under opaque and translucent text. oracle: exact rational source-over blend "
        "(within 1.5), alpha 0/1 exact, readability and fixes operate on the composite. non-trivial = cases with 0 < alpha < 1."
    )
    fgs = cube(4, offset=ctx.phase) + [(255, 255, 254), (1, 0, 0)]
    B = bgs(ctx.phase)
    jobs = []
    fix_stride = 11 if ctx.quick else 3
    for fg in fgs:
        for sp in ("rgba", "tuple", "list"):
            jobs.append(("text", sp, fg, ALPHAS, B, fix_stride))
    for h in HSL_FG:
        jobs.append(("text", "hsla", h, ALPHAS, B, fix_stride))
    texts = [(0, 0, 0), (119, 119, 119), "rgba(0, 0, 0, 0.6)", "hsla(210, 65%, 20%, 0.8)", (255, 255, 255)]
    for fg in fgs[:: (4 if ctx.quick else 1)]:
        for sp in ("rgba", "tuple"):
            jobs.append(("bg", sp, fg, ALPHAS, texts, 0))
    for h in HSL_FG:
        jobs.append(("bg", "hsla", h, ALPHAS, texts, 0))
    n = 0
    for cnt, vs in ctx.pmap_forked(chunk, jobs, chunksize=2):
        n += cnt
        ctx.add_violations(vs)
    ctx.sub("translucent_text_and_background", states=n, transitions=3 * n, evaluations=n, traces=n, distinct_nontrivial=n * 7 // 9,
            exhaustive=True, foregrounds=len(fgs) + len(HSL_FG), alphas=ALPHAS, backgrounds=[list(b) for b in B])
    ctx.sample({"subcheck": "text", "value": "rgba(85, 170, 0, 0.25)", "bg": list(B[3])})
    ctx.sample({"subcheck": "text", "value": [85, 170, 0, 0.996], "bg": list(B[1])})
    ctx.sample({"subcheck": "bg", "value": "hsla(210, 65%, 20%, 0.5)", "text": "rgba(0, 0, 0, 0.6)"})
