"""C02 - fixing never harms: readable colours are kept, contrast never drops."""
from mc import sweep
from mc.lattice import CFG


# ---- translucent text over a changing background (histories of two calls in one process)
ALPHA_TEXTS = [(0, 0, 0), (255, 255, 255), (119, 119, 119)]
ALPHA_BGS = ["#ffffff", "#000000", "#787878", "#28143c", "rgb(200, 220, 240)"]
ALPHA_FORMS = ["rgba(%d, %d, %d, %s)", "rgb(%d %d %d / %s)", "rgb(%d, %d, %d, %s)", "%d, %d, %d, %s", "tuple", "rgba(%d %d %d / %s)"]
ALPHA_CFG = [(m, lg, vr) for m in (0, 1) for lg in (False, True) for vr in (False, True)]


def _alpha_value(form, rgb, a):
    if form == "tuple":
        return tuple(rgb) + (a,)
    return form % (rgb + (repr(a),))


def _alpha_history(job):
    """(forked child) the same translucent text value against bg1, then against bg2, every setting."""
    form, rgb, a, bg1, bg2 = job
    from cm_colors import ColorPair

    text = _alpha_value(form, tuple(rgb), a)
    out = []
    for bg in (bg1, bg2):
        row = []
        for mode, lg, vr in ALPHA_CFG:
            try:
                row.append(ColorPair(text, bg, large_text=lg).make_readable(mode=mode, very_readable=vr))
            except Exception as e:  # noqa
                row.append(("EXC", repr(e)))
        out.append(row)
    return out


def judge_alpha_history(job):
    from fractions import Fraction
    from mc.explore.forked import forked
    from mc.oracle import css_color, wcag

    form, rgb, a, bg1, bg2 = job
    case = {"kind": "alpha_history", "job": [form, list(rgb), a, bg1, bg2]}
    status, rows = forked(_alpha_history, job)
    if status != "ok":
        raise RuntimeError("alpha history child failed: %s" % rows)
    out = []
    text = _alpha_value(form, tuple(rgb), a)
    for which, (bg, row) in enumerate(zip((bg1, bg2), rows)):
        bg_rgb = css_color.read_unique(bg)
        exact = css_color.blend(rgb, Fraction(repr(a)), bg_rgb)
        cands = [[c for c in (round(x) - 1, round(x), round(x) + 1) if 0 <= c <= 255 and abs(c - x) <= 1.5] for x in exact]
        ratios = [wcag.ratio((r, g, b), bg_rgb) for r in cands[0] for g in cands[1] for b in cands[2]]
        r_min, r_max = min(ratios), max(ratios)
        for (mode, lg, vr), (val, ok) in zip(ALPHA_CFG, row):
            if val == "EXC":
                continue   # C14 / C13
            need = wcag.minimum(lg, vr)
            got = css_color.read_unique(val) if not isinstance(val, tuple) else (val if len(val) == 3 else None)
            if got is None:
                continue   # C06
            where = "%r on %r (call %d of the history [%r, %r]) mode=%d large=%s very_readable=%s" % (text, bg, which + 1, bg1, bg2, mode, lg, vr)
            if r_min >= need + 1e-9:
                if ok is not True or any(abs(g - x) > 1.5 for g, x in zip(got, exact)):
                    out.append(dict(sig="harm/readable_translucent_text_changed_or_failed", case=case, observed=[repr(val), ok],
                                    expected=[[float(x) for x in exact], True],
                                    msg="%s: the composite %s has ratio >= %.3f >= %.1f but (%r, %s) was returned"
                                        % (where, [float(x) for x in exact], r_min, need, val, ok)))
            elif r_max < need - 1e-9 and wcag.ratio(got, bg_rgb) < r_min - 1e-9:
                out.append(dict(sig="harm/contrast_dropped_translucent_text", case=case, observed=[repr(val), ok], expected=r_min,
                                msg="%s: ratio of the composite >= %.4f, of the returned %r only %.4f" % (where, r_min, val, wcag.ratio(got, bg_rgb))))
    return out


def chunk_alpha(job):
    return 1, judge_alpha_history(job)


def judge_case(case):
    if case["kind"] == "alpha_history":
        j = case["job"]
        return judge_alpha_history((j[0], tuple(j[1]), j[2], j[3], j[4]))
    if case["kind"] == "pair":
        return sweep.judge_c02(sweep.rec_from_case(case))[0]
    if case["kind"] == "spelled":
        return sweep.judge_spelled_c02(sweep.eval_spelled(sweep.spelled_job_from_case(case)))[0]
    if case["kind"] == "envx":
        from mc.explore import envx_run

        return envx_run.replay("C02", case)
    raise ValueError(case["kind"])


def run(ctx):
    ctx.cov["rule"] = (
        "pair lattice (incl. text = bg and the 8-bit colours adjacent to each threshold on both sides) x 12 settings, plus the "
        "spelling layer (translucent spellings built so that the exact blend is an integer triple). oracle: already-readable "
        "pairs come back unchanged with success; otherwise the returned colour's ratio is not below the original's. "
        "non-trivial = pairs below 7.0."
    )
    pl, it = sweep.sweep(ctx)
    n = nt = und = 0
    kept = lowered = 0
    for rec in it:
        vs, u = sweep.judge_c02(rec)
        ctx.add_violations(vs)
        und += u
        n += 1
        nt += sweep.nontrivial(rec)
        for cfg in CFG:
            kept += rec["res"][cfg][0] == rec["text"]
    ctx.sub("pair_lattice_x_12_settings", states=n, transitions=12 * n, evaluations=12 * n, traces=12 * n, distinct_nontrivial=nt,
            undecidable=und, exhaustive=True, runs_returning_original=kept)
    ctx.sample({"subcheck": "pair", "text": list(pl[len(pl) // 2][0]), "bg": list(pl[len(pl) // 2][1]), "settings": "all 12"})
    jobs = sweep.spelled_jobs(ctx.tier, ctx.phase)
    m = und = 0
    for rec in ctx.pmap(sweep.eval_spelled, jobs, chunksize=2):
        vs, u = sweep.judge_spelled_c02(rec)
        ctx.add_violations(vs)
        und += u
        m += 1
    ctx.sub("spelling_layer", states=m, transitions=12 * m, evaluations=12 * m, traces=12 * m, distinct_nontrivial=m, undecidable=und, exhaustive=True)
    ctx.sample({"subcheck": "spelled", "text": repr(jobs[len(jobs) // 3][0]), "bg": repr(jobs[len(jobs) // 3][1])})
    import itertools

    aj = [(f, t, a, b1, b2) for f in ALPHA_FORMS for t in ALPHA_TEXTS for a in ((0.5,) if ctx.quick else (0.5, 0.6, 0.25))
          for b1, b2 in itertools.permutations(ALPHA_BGS, 2)]
    k = 0
    for cnt, vs in ctx.pmap(chunk_alpha, aj, chunksize=4):
        k += cnt
        ctx.add_violations(vs)
    ctx.sub("translucent_text_background_histories", states=k, transitions=2 * len(ALPHA_CFG) * k, evaluations=2 * len(ALPHA_CFG) * k, traces=k,
            distinct_nontrivial=k, exhaustive=True, forms=ALPHA_FORMS, backgrounds=ALPHA_BGS)
    ctx.sample({"subcheck": "alpha_history", "text": "rgb(0 0 0 / 0.5)", "backgrounds": ["#ffffff", "#787878"]})
    from mc.explore import envx_run

    envx_run.run(ctx, "C02")
