"""C02 - fixing never harms: readable colours are kept, contrast never drops."""
from mc import sweep
from mc.lattice import CFG


def judge_case(case):
    if case["kind"] == "pair":
        return sweep.judge_c02(sweep.rec_from_case(case))[0]
    if case["kind"] == "spelled":
        return sweep.judge_spelled_c02(sweep.eval_spelled(sweep.spelled_job_from_case(case)))[0]
    if case["kind"] == "envx":
        from mc.explore import envx_run

        return envx_run.replay("C02", case)
    raise ValueError(case["kind"])


def run(ctx):
    ctx.cov["rule"] = (
        "pair lattice (incl. text = bg and the 8-bit colours adjacent to each threshold on both sides) x 12 settings, plus the "
        "spelling layer (translucent spellings built so that the exact blend is an integer triple). oracle: already-readable "
        "pairs come back unchanged with success; otherwise the returned colour's ratio is not below the original's. "
        "non-trivial = pairs below 7.0."
    )
    pl, it = sweep.sweep(ctx)
    n = nt = und = 0
    kept = lowered = 0
    for rec in it:
        vs, u = sweep.judge_c02(rec)
        ctx.add_violations(vs)
        und += u
        n += 1
        nt += sweep.nontrivial(rec)
        for cfg in CFG:
            kept += rec["res"][cfg][0] == rec["text"]
    ctx.sub("pair_lattice_x_12_settings", states=n, transitions=12 * n, evaluations=12 * n, traces=12 * n, distinct_nontrivial=nt,
            undecidable=und, exhaustive=True, runs_returning_original=kept)
    ctx.sample({"subcheck": "pair", "text": list(pl[len(pl) // 2][0]), "bg": list(pl[len(pl) // 2][1]), "settings": "all 12"})
    jobs = sweep.spelled_jobs(ctx.tier, ctx.phase)
    m = und = 0
    for rec in ctx.pmap(sweep.eval_spelled, jobs, chunksize=2):
        vs, u = sweep.judge_spelled_c02(rec)
        ctx.add_violations(vs)
        und += u
        m += 1
    ctx.sub("spelling_layer", states=m, transitions=12 * m, evaluations=12 * m, traces=12 * m, distinct_nontrivial=m, undecidable=und, exhaustive=True)
    ctx.sample({"subcheck": "spelled", "text": repr(jobs[len(jobs) // 3][0]), "bg": repr(jobs[len(jobs) // 3][1])})
    from mc.explore import envx_run

    envx_run.run(ctx, "C02")
