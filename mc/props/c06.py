"""C06 - output keeps the input's format and reads back as exactly the judged colour.

(1) whole-domain: format_color(c, fmt) for every colour and every output format, re-read by the
    library's own parser and by the CSS reference parser.
(2) format mapping: spelling x outcome x configuration -> shape of the returned value (uses the
    pair lattice of mc/sweep.py).
"""
import re

from mc.lattice import NAMED_LIST, cube
from mc.oracle import css_color

FORMATS = ("hex", "rgb", "hsl", "rgb_tuple")
_HEX_OUT = re.compile(r"^#[0-9a-fA-F]{6}$")
_RGB_OUT = re.compile(r"^rgb\([ \t\n\r\f]*(\d+)[ \t\n\r\f]*,[ \t\n\r\f]*(\d+)[ \t\n\r\f]*,[ \t\n\r\f]*(\d+)[ \t\n\r\f]*\)$")
_EXPONENT = re.compile(r"\d[eE][+-]?\d")


def _lib():
    from cm_colors.core import color_parser

    return color_parser


def judge_format(rgb, fmt):
    """Returns list of violations, or None when the output is outside what CSS Color 3 fixes (exponent)."""
    cp = _lib()
    rgb = tuple(rgb)
    case = {"kind": "format", "rgb": list(rgb), "fmt": fmt}
    try:
        out = cp.format_color(rgb, fmt)
    except Exception as e:  # noqa
        return [dict(sig="format/%s/raises" % fmt, case=case, observed=repr(e), msg="format_color(%s,%r) raised %r" % (rgb, fmt, e))]

    def v(sig, msg, **kw):
        return dict(sig="format/%s/%s" % (fmt, sig), case=case, observed=repr(out), expected=list(rgb), msg=msg, **kw)

    res = []
    if fmt == "rgb_tuple":
        if not (isinstance(out, tuple) and len(out) == 3 and all(type(x) is int for x in out) and out == rgb):
            res.append(v("not_same_tuple", "format_color(%s,'rgb_tuple') = %r" % (rgb, out)))
        return res
    if not isinstance(out, str):
        return [v("not_a_string", "format_color(%s,%r) = %r" % (rgb, fmt, out))]
    # CSS consumer
    if fmt == "hex":
        ok = bool(_HEX_OUT.match(out))
        css = (int(out[1:3], 16), int(out[3:5], 16), int(out[5:7], 16)) if ok else None
        if ok:
            css = tuple({x} for x in css)
    elif fmt == "rgb":
        m = _RGB_OUT.match(out)
        css = tuple({min(255, int(x))} for x in m.groups()) if m else None
    else:
        if not out.lower().startswith("hsl("):
            css = None
        elif _EXPONENT.search(out):
            return None
        else:
            css = css_color.read_hsl_fast(out)
    if css is None:
        res.append(v("not_valid_css", "format_color(%s,%r) = %r is not a valid CSS Color 3 value" % (rgb, fmt, out)))
    elif not all(c in s for c, s in zip(rgb, css)):
        res.append(v("css_reads_other_colour", "format_color(%s,%r) = %r, which CSS reads as %s"
                     % (rgb, fmt, out, [sorted(s) for s in css])))
    # the library's own parser
    try:
        back = cp.parse_color_to_rgb(out)
    except Exception as e:  # noqa
        res.append(v("own_parser_rejects", "format_color(%s,%r) = %r, rejected by parse_color_to_rgb: %s" % (rgb, fmt, out, e)))
    else:
        if tuple(back) != rgb:
            res.append(v("own_parser_reads_other_colour", "format_color(%s,%r) = %r, parse_color_to_rgb reads %s" % (rgb, fmt, out, back)))
    return res


def judge_case(case):
    if case["kind"] == "format":
        return judge_format(case["rgb"], case["fmt"]) or []
    if case["kind"] in ("mapping", "spelled"):
        from mc import sweep

        return sweep.judge_mapping_case(case)
    raise ValueError(case["kind"])


def chunk_colours(colours):
    viol, und, n = [], 0, 0
    cp = _lib()
    fc, parse = cp.format_color, cp.parse_color_to_rgb
    fast = css_color.read_hsl_fast
    for c in colours:
        for fmt in FORMATS:
            n += 1
            # fast accept path (identical logic to judge_format, which is re-run on any doubt)
            try:
                out = fc(c, fmt)
                if fmt == "rgb_tuple":
                    ok = type(out) is tuple and out == c and type(out[0]) is int
                elif fmt == "hex":
                    ok = type(out) is str and bool(_HEX_OUT.match(out)) and int(out[1:], 16) == (c[0] << 16 | c[1] << 8 | c[2]) and parse(out) == c
                elif fmt == "rgb":
                    m = _RGB_OUT.match(out)
                    ok = bool(m) and tuple(int(x) for x in m.groups()) == c and parse(out) == c
                else:
                    s = fast(out) if not _EXPONENT.search(out) else None
                    ok = s is not None and c[0] in s[0] and c[1] in s[1] and c[2] in s[2] and parse(out) == c
            except Exception:  # noqa
                ok = False
            if not ok:
                vs = judge_format(c, fmt)
                if vs is None:
                    und += 1
                elif vs and len(viol) < 8:
                    viol += vs
                elif vs:
                    viol.append(None)  # count only
    cnt = len(viol)
    return n, [x for x in viol if x is not None], und, cnt


def slab(r):
    return [(r, g, b) for g in range(256) for b in range(256)]


def chunk_slab(r):
    return chunk_colours(slab(r))


def faces_slab(r):
    if r in (0, 255):
        return slab(r)
    out = []
    for g in range(256):
        if g in (0, 255):
            out += [(r, g, b) for b in range(256)]
        else:
            out += [(r, g, 0), (r, g, 255)]
    return out


def chunk_faces(r):
    return chunk_colours(faces_slab(r))


def run(ctx):
    ctx.cov["rule"] = (
        "format_color on every colour of the tier's domain (thorough: all 2^24; quick: every colour with a 0/255 channel "
        "+ greys + 17^3 cube + named) x {hex, rgb(), hsl(), tuple}, each output re-read by the library's parser and by the "
        "CSS Color 3 reference parser; plus the spelling x outcome x configuration format-mapping lattice. "
        "non-trivial = (colour, string format) outputs."
    )
    n = und = tot = 0
    if ctx.quick:
        jobs = list(range(256))
        it = ctx.pmap_chunks("mc.props.c06", "chunk_faces", jobs)
        extra = cube(17, offset=ctx.phase) + [(i, i, i) for i in range(256)] + [v for _, v in NAMED_LIST]
        name = "format_readback_faces_cube17_grey_named"
    else:
        it = ctx.pmap_chunks("mc.props.c06", "chunk_slab", list(range(256)))
        extra = []
        name = "format_readback_all_2^24"
    for cnt, viol, u, c in it:
        n += cnt
        und += u
        tot += c
        ctx.add_violations(viol)
    if extra:
        for i in range(0, len(extra), 512):
            cnt, viol, u, c = chunk_colours(extra[i:i + 512])
            n += cnt
            und += u
            tot += c
            ctx.add_violations(viol)
    ctx.sub(name, states=n, transitions=2 * n, evaluations=n, traces=n, distinct_nontrivial=n * 3 // 4, undecidable=und,
            exhaustive=True, failing_outputs=tot)
    ctx.sample({"subcheck": "format", "rgb": [0, 0, 9], "fmt": "hsl"})
    ctx.sample({"subcheck": "format", "rgb": [18, 52, 86], "fmt": "rgb"})
    try:
        from mc import sweep
    except ImportError:
        ctx.skip("format_mapping", "pair lattice not built")
    else:
        sweep.run_mapping(ctx)
    ctx.assumptions += [
        "CSS consumer = mc/oracle/css_color.py (CSS Color 3, clamping S/L to [0,100]%); float fast path re-done in exact "
        "rationals whenever a channel is within 1e-6 of a rounding boundary; both neighbours accepted on exact ties",
    ]
