"""C17 - no output or files unless asked; previews and reports never change the result."""
import os
import shutil
import sys
import tempfile

from mc import sweep

_HOOK = {"on": False, "events": [], "installed": False}
_WRITE_EVENTS = {"os.mkdir", "os.rename", "os.remove", "os.rmdir", "os.symlink", "os.link", "os.chmod", "os.chown", "os.truncate",
                 "os.utime", "shutil.copyfile", "shutil.move", "shutil.rmtree", "os.mkfifo", "os.mknod", "tempfile.mkstemp",
                 "tempfile.mkdtemp", "subprocess.Popen", "os.system", "os.exec", "os.posix_spawn", "os.fork", "socket.connect"}


def _audit(event, args):
    if not _HOOK["on"]:
        return
    if event == "open":
        path, mode, flags = args[0], args[1], args[2]
        writing = False
        if isinstance(flags, int) and flags & (os.O_WRONLY | os.O_RDWR | os.O_CREAT | os.O_TRUNC | os.O_APPEND):
            writing = True
        if isinstance(mode, str) and any(c in mode for c in "wax+"):
            writing = True
        if writing:
            _HOOK["events"].append(("open-for-write", str(path)))
    elif event in _WRITE_EVENTS:
        _HOOK["events"].append((event, repr(args)[:200]))


def _install():
    if not _HOOK["installed"]:
        sys.addaudithook(_audit)
        _HOOK["installed"] = True


def observed_call(fn, encoding="utf-8"):
    """Run fn() in a fresh temp cwd with fds 1/2 and sys.stdout/err captured and writes audited (sys.stdout / sys.stderr are
    text streams of the given encoding, strict, as an interpreter whose output is redirected on such a platform has them).
    -> dict(result=..., exc=..., out=bytes, err=bytes, events=[...], created=[names])"""
    _install()
    cwd0 = os.getcwd()
    d = tempfile.mkdtemp(prefix="c17-", dir="/var/tmp")
    cap = tempfile.mkdtemp(prefix="c17cap-", dir="/var/tmp")
    fo = open(os.path.join(cap, "out"), "w+b")
    fe = open(os.path.join(cap, "err"), "w+b")
    sys.stdout.flush()
    sys.stderr.flush()
    save1, save2 = os.dup(1), os.dup(2)
    so, se = sys.stdout, sys.stderr
    res = exc = None
    try:
        os.chdir(d)
        os.dup2(fo.fileno(), 1)
        os.dup2(fe.fileno(), 2)
        sys.stdout = os.fdopen(os.dup(1), "w", encoding=encoding)
        sys.stderr = os.fdopen(os.dup(2), "w", encoding=encoding)
        _HOOK["events"] = []
        _HOOK["on"] = True
        try:
            res = fn()
        except BaseException as e:  # noqa
            exc = "%s: %s" % (type(e).__name__, e)
        finally:
            _HOOK["on"] = False
        sys.stdout.flush()
        sys.stderr.flush()
        sys.stdout.close()
        sys.stderr.close()
    finally:
        sys.stdout, sys.stderr = so, se
        os.dup2(save1, 1)
        os.dup2(save2, 2)
        os.close(save1)
        os.close(save2)
        os.chdir(cwd0)
    fo.seek(0)
    fe.seek(0)
    out, err = fo.read(), fe.read()
    fo.close()
    fe.close()
    created = sorted(os.listdir(d))
    events = list(_HOOK["events"])
    files = {n: os.path.getsize(os.path.join(d, n)) for n in created}
    shutil.rmtree(d, ignore_errors=True)
    shutil.rmtree(cap, ignore_errors=True)
    return dict(result=res, exc=exc, out=out, err=err, events=events, created=created, dir=d, files=files)


def _plain_ok(ob, what, case):
    out = []
    if ob["exc"]:
        out.append(dict(sig="quiet/plain_call_raises", case=case, observed=ob["exc"], msg="%s raised %s" % (what, ob["exc"])))
    if ob["out"] or ob["err"]:
        out.append(dict(sig="quiet/stray_output", case=case, observed=[ob["out"][:200].decode("utf-8", "replace"), ob["err"][:200].decode("utf-8", "replace")],
                        msg="%s wrote %d bytes to stdout and %d to stderr: %r" % (what, len(ob["out"]), len(ob["err"]), (ob["out"] + ob["err"])[:80])))
    if ob["events"] or ob["created"]:
        out.append(dict(sig="quiet/stray_file_activity", case=case, observed=[ob["events"][:5], ob["created"]],
                        msg="%s touched the filesystem: %s %s" % (what, ob["events"][:3], ob["created"])))
    return out


def judge_single(tval, bval, mode, vr=False):
    from cm_colors import ColorPair

    case = {"kind": "single", "text": list(tval) if isinstance(tval, (tuple, list)) else tval, "text_is_tuple": isinstance(tval, tuple),
            "bg": list(bval) if isinstance(bval, (tuple, list)) else bval, "mode": mode, "very_readable": vr}
    what = "ColorPair(%r, %r).make_readable(mode=%d)" % (tval, bval, mode)

    def plain():
        p = ColorPair(tval, bval)
        _ = (p.is_valid, p.is_readable, p.errors, p.text.to_hex())
        return p.make_readable(mode=mode, very_readable=vr)

    base = observed_call(plain)
    out = _plain_ok(base, what, case)
    n = 1
    for show in (False, True):
        for save in (False, True):
            if not show and not save:
                continue
            n += 1
            ob = observed_call(lambda: ColorPair(tval, bval).make_readable(mode=mode, very_readable=vr, show=show, save_report=save))
            tag = "show=%s, save_report=%s" % (show, save)
            if ob["exc"]:
                out.append(dict(sig="preview/raises", case=dict(case, show=show, save_report=save), observed=ob["exc"],
                                msg="%s with %s raised %s" % (what, tag, ob["exc"])))
                continue
            if ob["result"] != base["result"] or type(ob["result"][0]) is not type(base["result"][0]):
                out.append(dict(sig="preview/result_differs", case=dict(case, show=show, save_report=save), observed=repr(ob["result"]),
                                expected=repr(base["result"]), msg="%s: plain %r, with %s %r" % (what, base["result"], tag, ob["result"])))
            allowed = {"cm_colors_quick_report.html"} if save else set()
            bad_ev = [e for e in ob["events"] if not (e[0] == "open-for-write" and os.path.basename(e[1]) in allowed
                                                      and os.path.dirname(os.path.join(ob["dir"], e[1])) == ob["dir"])]
            if bad_ev or set(ob["created"]) - allowed:
                out.append(dict(sig="preview/unexpected_file_activity", case=dict(case, show=show, save_report=save),
                                observed=[bad_ev[:5], ob["created"]], msg="%s with %s: file activity %s, created %s" % (what, tag, bad_ev[:3], ob["created"])))
            valid_pair = bool(base["result"]) and base["result"][0] is not None
            if save and valid_pair and ("cm_colors_quick_report.html" not in ob["created"] or ob["files"].get("cm_colors_quick_report.html", 0) == 0):
                out.append(dict(sig="preview/report_missing", case=dict(case, show=show, save_report=save), observed=ob["created"],
                                msg="%s with %s did not write cm_colors_quick_report.html" % (what, tag)))
            if not show and not save and (ob["out"] or ob["err"]):
                pass
            if ob["err"]:
                out.append(dict(sig="preview/writes_stderr", case=dict(case, show=show, save_report=save), observed=ob["err"][:200].decode("utf-8", "replace"),
                                msg="%s with %s wrote to stderr: %r" % (what, tag, ob["err"][:80])))
    # the preview on output streams that cannot encode every character (redirected output under an ASCII / cp1252 locale)
    for enc in ("ascii", "cp1252"):
        n += 1
        ob = observed_call(lambda: ColorPair(tval, bval).make_readable(mode=mode, very_readable=vr, show=True), encoding=enc)
        ecase = dict(case, show=True, save_report=False, stdout_encoding=enc)
        if ob["exc"]:
            out.append(dict(sig="preview/raises", case=ecase, observed=ob["exc"],
                            msg="%s with show=True on a %s stdout raised %s" % (what, enc, ob["exc"])))
        elif ob["result"] != base["result"]:
            out.append(dict(sig="preview/result_differs", case=ecase, observed=repr(ob["result"]), expected=repr(base["result"]),
                            msg="%s: plain %r, with show=True on a %s stdout %r" % (what, base["result"], enc, ob["result"])))
    return n, out, ("unchanged" if base["result"] and base["result"][1] and base["out"] == b"" and False else None)


LENIENT = [("rgba(0, 0, 0, 50)", "#ffffff"), ((30, 60, 90, 35), "white"), ("#555555", "rgba(200, 200, 200, 80)"), ("119, 119, 119", "white"),
           ("(119, 119, 119)", "#fff"), ("rgb 119 119 119", "#fff"), ((0.5, 0.5, 0.5), (1.0, 1.0, 1.0)), ((240, 1.0, 0.2), "white"),
           ("rgba(0, 0, 0, 50%)", "white"), ("hsla(0, 0%, 0%, 40)", "white"), (("119", "119", "119"), "white"), ([119, 119, 119, 0.5], [255, 255, 255]),
           ("rgb(119 119 119 / 0.5)", "white"), ("  #777  ", " WHITE "), ("rgba(0,0,0,1.0)", "rgba(255,255,255,100)"),
           # invalid input: constructing and querying it is as silent as for valid input
           ("bogus", "white"), ("#777", "nope"), ("", ""), ((300, 0, 0), "#fff"), ("rgb(1,2", "#fff"), ("#12", (1, 2)), ((None, 0.5, 0.5, 0.5), "white"),
           ("inherit", "transparent"), ("var(--x)", "#fff")]
ENTRIES = [("#777", "#fff"), ((119, 119, 119), (0, 0, 0), True), ("hsl(240, 100%, 2%)", "white"), ("yellow", "white"),
           ("rgba(0,0,0,0.4)", (250, 240, 20)), ("bogus", "white"), ("rgb(200, 200, 100)", "#fff"),
           ((300, 0, 0), "#ffffff"), ("#777", [1, 2])]


def judge_bulk(idx, mode):
    from cm_colors import make_readable_bulk

    entries = [ENTRIES[i] for i in idx]
    case = {"kind": "bulk", "idx": list(idx), "mode": mode}
    what = "make_readable_bulk(%r, mode=%d)" % (entries, mode)
    base = observed_call(lambda: make_readable_bulk(list(entries), mode=mode))
    out = _plain_ok(base, what, case)
    ob = observed_call(lambda: make_readable_bulk(list(entries), mode=mode, save_report=True))
    if ob["exc"]:
        out.append(dict(sig="preview/raises", case=case, observed=ob["exc"], msg="%s with save_report raised %s" % (what, ob["exc"])))
        return 2, out
    if ob["result"] != base["result"]:
        out.append(dict(sig="preview/result_differs", case=case, observed=repr(ob["result"]), expected=repr(base["result"]),
                        msg="%s: plain %r, with save_report %r" % (what, base["result"], ob["result"])))
    allowed = {"cm_colors_bulk_report.html"}
    bad_ev = [e for e in ob["events"] if not (e[0] == "open-for-write" and os.path.basename(e[1]) in allowed
                                              and os.path.dirname(os.path.join(ob["dir"], e[1])) == ob["dir"])]
    if bad_ev or set(ob["created"]) - allowed:
        out.append(dict(sig="preview/unexpected_file_activity", case=case, observed=[bad_ev[:5], ob["created"]],
                        msg="%s with save_report: file activity %s, created %s" % (what, bad_ev[:3], ob["created"])))
    if ob["err"]:
        out.append(dict(sig="preview/writes_stderr", case=case, observed=ob["err"][:200].decode("utf-8", "replace"), msg="%s wrote to stderr" % what))
    return 2, out


def judge_case(case):
    if case["kind"] == "single":
        t = case["text"]
        if isinstance(t, list):
            t = tuple(t) if case.get("text_is_tuple") else list(t)
        b = case["bg"]
        if isinstance(b, list):
            b = tuple(b)
        return judge_single(t, b, case["mode"], case.get("very_readable", False))[1]
    return judge_bulk(case["idx"], case["mode"])[1]


def chunk_single(job):
    tval, bval, modes = job
    out, n = [], 0
    for m in modes:
        cnt, vs, _ = judge_single(tval, bval, m)
        n += cnt
        if vs and len(out) < 6:
            out += vs
    return n, out


def chunk_bulk(job):
    idx, mode = job
    return judge_bulk(idx, mode)


def run(ctx):
    ctx.cov["rule"] = (
        "every spelling of the spelling layer (all accepted text spellings incl. translucent and hsl forms; outcomes unchanged, "
        "fixed, failed) x mode x show x save_report through ColorPair.make_readable, and every list of 1-2 entries over a 7-entry "
        "alphabet x mode x save_report through make_readable_bulk, each in a fresh temp cwd with fds 1/2 + sys.stdout/err captured "
        "and file writes audited (sys.addaudithook). non-trivial = calls with show or save_report."
    )
    jobs = sweep.spelled_jobs(ctx.tier, ctx.phase)
    seen, sj = set(), []
    for tval, bval, t, b, fmt, label in jobs:
        key = (label, t, b)
        if key in seen:
            continue
        seen.add(key)
        sj.append((tval, bval, (0, 1, 2)))
    if ctx.quick:
        sj = sj[::2]
    # spellings the library accepts beyond CSS (informal lists, bare alpha percentages, float / HSL tuples): equally silent
    for tv, bv in LENIENT:
        sj.append((tv, bv, (0, 1, 2)))
    n = 0
    for cnt, vs in ctx.pmap_forked(chunk_single, sj, chunksize=2):
        n += cnt
        ctx.add_violations(vs)
    ctx.sub("single_pair_show_save", states=len(sj) * 3, transitions=n, evaluations=n, traces=n, distinct_nontrivial=n * 3 // 4, exhaustive=True)
    ctx.sample({"subcheck": "single", "text": repr(sj[len(sj) // 2][0]), "bg": repr(sj[len(sj) // 2][1]), "modes": [0, 1, 2], "show": [False, True], "save_report": [False, True]})
    k = len(ENTRIES)
    lists = [(i,) for i in range(k)] + [(i, j) for i in range(k) for j in range(k)]
    bj = [(ix, m) for ix in lists for m in ((1,) if ctx.quick else (0, 1, 2))]
    m = 0
    for cnt, vs in ctx.pmap_forked(chunk_bulk, bj, chunksize=2):
        m += cnt
        ctx.add_violations(vs)
    ctx.sub("bulk_save_report", states=len(bj), transitions=m, evaluations=m, traces=m, distinct_nontrivial=m // 2, exhaustive=True)
    ctx.sample({"subcheck": "bulk", "entries": [repr(ENTRIES[2]), repr(ENTRIES[5])], "save_report": [False, True]})
    ctx.assumptions += ["file activity observed through Python audit events (open with a write flag, os.* mutations) and the listing of "
                        "the fresh working directory; cm-colors has no C extension"]
