"""C16 - asking for less never fails: mode 2 covers mode 1, readable covers very readable."""
from mc import sweep


def judge_case(case):
    if case["kind"] == "envx":
        from mc.explore import envx_run

        return envx_run.replay("C16", case)
    return sweep.judge_c16(sweep.rec_from_case(case))[0]


def run(ctx):
    ctx.cov["rule"] = (
        "pair lattice (incl. far-below texts needing several default-mode steps; thorough: plus every colour of a step-12 cube within ratio 1.08 "
        "of four mid-tone backgrounds) x large x very_readable for modes 1 and 2, "
        "and x mode for the very_readable/ordinary comparison; relational oracle, no expected values. non-trivial = pairs "
        "where mode 1 succeeds after a change, mode 2 alone succeeds, or a very_readable request succeeds."
    )
    # thorough tier: the whole neighbourhood of four mid-tone backgrounds as well (this property only: such pairs fail in every
    # mode and cost seconds each)
    from mc.lattice import near_background_shell

    shell = [] if ctx.quick else [(t, b) for t, b, _tag in near_background_shell(ctx.phase)]
    pl, it = sweep.sweep(ctx, shell)
    n = nt = 0
    t1 = t2 = tv = 0
    for rec in it:
        vs, (n1, n2only, nvr) = sweep.judge_c16(rec)
        ctx.add_violations(vs)
        n += 1
        t1 += n1
        t2 += n2only
        tv += nvr
        nt += sweep.nontrivial(rec)
    ctx.sub("mode_and_strictness_relations", states=n, transitions=12 * n, evaluations=12 * n, traces=12 * n, distinct_nontrivial=nt,
            exhaustive=True, mode1_successes_compared=t1, mode2_only_successes=t2, very_readable_successes_compared=tv)
    ctx.sample({"subcheck": "pair", "text": list(pl[len(pl) // 2][0]), "bg": list(pl[len(pl) // 2][1]), "settings": "all 12"})
    from mc.explore import envx_run

    envx_run.run(ctx, "C16")
