"""C11 - CIE Lab and CIEDE2000 agree with the CIE definitions."""
import json
import math
import os

from mc.lattice import cube, cube_levels
from mc.oracle import cielab, ciede2000

LAB_TOL = 0.05
DE_TOL = 0.05
SHARMA_TOL = 1e-4
SYM_TOL = 1e-9
_SHARMA = json.load(open(os.path.join(os.path.dirname(os.path.dirname(os.path.abspath(__file__))), "oracle", "sharma34.json")))


def _lib():
    from cm_colors.core import color_metrics, conversions

    return color_metrics, conversions


def judge_lab(rgb):
    _, cv = _lib()
    rgb = tuple(rgb)
    case = {"kind": "lab", "rgb": list(rgb)}
    try:
        got = cv.rgb_to_lab(rgb)
        via = cv.xyz_to_lab(cv.rgb_to_xyz(rgb))
    except Exception as e:  # noqa
        return [dict(sig="lab/raises", case=case, observed=repr(e), msg="rgb_to_lab(%s) raised %r" % (rgb, e))]
    want = cielab.rgb_to_lab(rgb)
    out = []
    if any((not math.isfinite(g)) or abs(g - w) > LAB_TOL for g, w in zip(got, want)):
        out.append(dict(sig="lab/differs_from_cie", case=case, observed=list(got), expected=list(want),
                        msg="rgb_to_lab(%s) = %s, CIE definition gives %s" % (rgb, [round(x, 4) for x in got], [round(x, 4) for x in want])))
    if tuple(via) != tuple(got):
        out.append(dict(sig="lab/xyz_path_differs", case=case, observed=list(via), expected=list(got),
                        msg="xyz_to_lab(rgb_to_xyz(%s)) differs from rgb_to_lab" % (rgb,)))
    xyz = cv.rgb_to_xyz(rgb)
    wxyz = [100.0 * v for v in cielab.rgb_to_xyz(rgb)]
    if any(abs(g - w) > 0.02 for g, w in zip(xyz, wxyz)):
        out.append(dict(sig="lab/xyz_differs", case=case, observed=list(xyz), expected=wxyz,
                        msg="rgb_to_xyz(%s) = %s, sRGB/D65 definition gives %s" % (rgb, xyz, wxyz)))
    return out


def judge_de(a, b):
    cm, _ = _lib()
    a, b = tuple(a), tuple(b)
    case = {"kind": "de", "a": list(a), "b": list(b)}
    try:
        d1 = cm.calculate_delta_e_2000(a, b)
        d2 = cm.calculate_delta_e_2000(b, a)
    except Exception as e:  # noqa
        return [dict(sig="de/raises", case=case, observed=repr(e), msg="calculate_delta_e_2000(%s,%s) raised %r" % (a, b, e))]
    want = ciede2000.delta_e(a, b)
    out = []

    def v(sig, msg):
        out.append(dict(sig="de/" + sig, case=case, observed=[d1, d2], expected=want, msg=msg))

    if not all(isinstance(d, (int, float)) and math.isfinite(d) for d in (d1, d2)):
        v("not_finite", "dE(%s,%s) = %r / %r" % (a, b, d1, d2))
        return out
    if d1 < 0 or d2 < 0:
        v("negative", "dE(%s,%s) = %r" % (a, b, d1))
    if abs(d1 - d2) > SYM_TOL:
        v("asymmetric", "dE(%s,%s) = %r but dE(%s,%s) = %r" % (a, b, d1, b, a, d2))
    if a == b and d1 != 0:
        v("identical_not_zero", "dE(%s,%s) = %r" % (a, a, d1))
    if a != b and d1 == 0:
        v("zero_for_distinct", "dE(%s,%s) = 0 for distinct colours" % (a, b))
    if abs(d1 - want) > DE_TOL:
        la, lb = cielab.rgb_to_lab(a), cielab.rgb_to_lab(b)
        # CIEDE2000 is discontinuous where the two hues are exactly opposite; a pair that the allowed Lab tolerance can move
        # across that line has two conformant values
        if not (ciede2000.at_discontinuity(la, lb) and abs(d1 - ciede2000.delta_e_lab(la, lb, other_branch=True)) <= DE_TOL):
            v("differs_from_cie", "dE2000(%s,%s) = %.5f, reference implementation gives %.5f" % (a, b, d1, want))
    return out


def judge_sharma(i):
    """Published Lab-space pair i, fed through the real routine by replacing its rgb_to_lab lookup."""
    cm, _ = _lib()
    if not hasattr(cm, "rgb_to_lab"):
        return None
    row = _SHARMA[i]
    l1, l2, want = tuple(row[0:3]), tuple(row[3:6]), row[6]
    orig = cm.rgb_to_lab
    cm.rgb_to_lab = lambda lab: lab
    try:
        d1 = cm.calculate_delta_e_2000(l1, l2)
        d2 = cm.calculate_delta_e_2000(l2, l1)
    except Exception as e:  # noqa
        return [dict(sig="de/raises", case={"kind": "sharma", "i": i}, observed=repr(e), msg="Sharma pair %d raised %r" % (i + 1, e))]
    finally:
        cm.rgb_to_lab = orig
    # was the seam used at all?  (if the routine no longer looks rgb_to_lab up here, the result is garbage: skip)
    if abs(d1 - want) > SHARMA_TOL or abs(d2 - want) > SHARMA_TOL:
        return [dict(sig="de/sharma_pair", case={"kind": "sharma", "i": i}, observed=[d1, d2], expected=want,
                     msg="Sharma-Wu-Dalal pair %d: library %.5f / %.5f, published %.4f" % (i + 1, d1, d2, want))]
    return []


def seam_ok():
    """The Lab-feeding seam works iff the routine looks rgb_to_lab up in its module at call time."""
    cm, _ = _lib()
    if not hasattr(cm, "rgb_to_lab"):
        return False
    calls = []
    orig = cm.rgb_to_lab

    def spy(x):
        calls.append(x)
        return orig(x)

    cm.rgb_to_lab = spy
    try:
        cm.calculate_delta_e_2000((1, 2, 3), (4, 5, 6))
    except Exception:  # noqa
        pass
    finally:
        cm.rgb_to_lab = orig
    return len(calls) == 2


def judge_case(case):
    k = case["kind"]
    if k == "lab":
        return judge_lab(case["rgb"])
    if k == "de":
        return judge_de(case["a"], case["b"])
    if k == "sharma":
        return judge_sharma(case["i"]) or []
    raise ValueError(k)


# ------------------------------------------------------------------ chunk workers
def chunk_lab(r):
    _, cv = _lib()
    f = cv.rgb_to_lab
    ref = cielab.rgb_to_lab
    viol = []
    for g in range(256):
        for b in range(256):
            c = (r, g, b)
            try:
                L, A, B = f(c)
                wL, wA, wB = ref(c)
                bad = not (abs(L - wL) <= LAB_TOL and abs(A - wA) <= LAB_TOL and abs(B - wB) <= LAB_TOL)
            except Exception:  # noqa
                bad = True
            if bad and len(viol) < 6:
                viol += judge_lab(c)
    # the XYZ path and matrix on a sub-lattice of this slab
    for g in range(0, 256, 15):
        for b in range(0, 256, 15):
            vs = judge_lab((r, g, b))
            if vs and len(viol) < 6:
                viol += vs
    return 65536, viol


def _fast_pairs(pairs):
    """Yield violations for an iterable of (a, b) pairs using cached oracle Lab."""
    cm, _ = _lib()
    de = cm.calculate_delta_e_2000
    lab = cielab.rgb_to_lab
    ref = ciede2000.delta_e_lab
    cache = {}
    viol = []
    n = 0
    for a, b in pairs:
        n += 1
        la = cache.get(a)
        if la is None:
            la = cache[a] = lab(a)
        lb = cache.get(b)
        if lb is None:
            lb = cache[b] = lab(b)
        try:
            d1, d2 = de(a, b), de(b, a)
            want = ref(la, lb)
            bad = not (abs(d1 - want) <= DE_TOL and abs(d1 - d2) <= SYM_TOL and d1 >= 0 and ((d1 == 0) == (a == b)))
        except Exception:  # noqa
            bad = True
        if bad and len(viol) < 6:
            viol += judge_de(a, b)
    return n, viol


# saturated pairs sitting on the discontinuity (found by an independent audit of the property)
OPPOSITE_PAIRS = [((0, 255, 255), (249, 178, 183)), ((12, 187, 149), (255, 8, 163)), ((114, 161, 146), (248, 7, 154)), ((255, 255, 0), (2, 72, 143)),
                  ((26, 206, 116), (250, 2, 230)), ((9, 247, 111), (242, 1, 255)), ((0, 10, 5), (10, 0, 5)), ((0, 5, 2), (5, 0, 3))]


def chunk_opposite(pairs):
    n, viol = _fast_pairs([(tuple(a), tuple(b)) for a, b in pairs])
    disc = sum(1 for a, b in pairs if ciede2000.at_discontinuity(cielab.rgb_to_lab(tuple(a)), cielab.rgb_to_lab(tuple(b))))
    return n, viol, disc


def chunk_neighbours(args):
    """Every colour of a slab against its +1 neighbours along each axis (covers all unit steps)."""
    r, gs, bs = args
    gs, bs = list(gs), list(bs)

    def gen():
        for g in gs:
            for b in bs:
                c = (r, g, b)
                if r < 255:
                    yield c, (r + 1, g, b)
                if g < 255:
                    yield c, (r, g + 1, b)
                if b < 255:
                    yield c, (r, g, b + 1)
                yield c, c

    return _fast_pairs(gen())


def chunk_rows(args):
    a, others = args
    a = tuple(a)
    return _fast_pairs((a, tuple(b)) for b in others)


def wrap_sets(phase):
    """Colours whose CIEDE2000 hue h' lies within 2 degrees of the 0/360 wrap, by side (derived by scan)."""
    lo, hi = [], []
    lv = cube_levels(33, offset=phase)
    for r in lv:
        for g in lv:
            for b in lv:
                L, A, B = cielab.rgb_to_lab((r, g, b))
                if math.hypot(A, B) < 5:
                    continue
                h = math.degrees(math.atan2(B, A)) % 360.0
                if h < 2.0:
                    lo.append((r, g, b))
                elif h > 358.0:
                    hi.append((r, g, b))
    return lo, hi


def run(ctx):
    ctx.cov["rule"] = (
        "Lab of all 2^24 colours against the CIE reference model; CIEDE2000: the 34 published Lab pairs (fed through a "
        "seam), every colour of the tier's lattice against its unit-step neighbours and itself, cube^2, grey x "
        "near-neutral and hue-wrap-straddling pairs, each in both argument orders. non-trivial = pairs of distinct colours."
    )
    n = 0
    for cnt, viol in ctx.pmap_chunks("mc.props.c11", "chunk_lab", list(range(256))):
        n += cnt
        ctx.add_violations(viol)
    ctx.sub("lab_all_2^24", states=n, transitions=n, evaluations=n, traces=n, distinct_nontrivial=n, exhaustive=True)
    ctx.sample({"subcheck": "lab", "rgb": [255, 0, 0], "reference": list(cielab.rgb_to_lab((255, 0, 0)))})

    if seam_ok():
        k = 0
        for i in range(len(_SHARMA)):
            vs = judge_sharma(i)
            ctx.add_violations(vs or [])
            k += 1
        ctx.sub("sharma_34_lab_pairs", states=k, transitions=2 * k, evaluations=k, traces=k, distinct_nontrivial=k, exhaustive=True)
        ctx.sample({"subcheck": "sharma", "pair": _SHARMA[16]})
    else:
        ctx.skip("sharma_34_lab_pairs", "color_metrics.rgb_to_lab seam is absent or not looked up at call time")

    # unit-step neighbours
    if ctx.quick:
        lv = cube_levels(17, offset=ctx.phase)
        jobs = [(r, lv, lv) for r in lv]
        name = "neighbours_cube17"
    else:
        full = list(range(256))
        jobs = [(r, full[i:i + 64], full) for r in range(256) for i in range(0, 256, 64)]
        name = "neighbours_all_2^24"
    m = 0
    for cnt, viol in ctx.pmap_chunks("mc.props.c11", "chunk_neighbours", jobs):
        m += cnt
        ctx.add_violations(viol)
    ctx.sub(name, states=m, transitions=2 * m, evaluations=m, traces=m, distinct_nontrivial=m * 3 // 4, exhaustive=True)
    ctx.sample({"subcheck": "de", "a": [10, 20, 30], "b": [10, 21, 30], "reference": ciede2000.delta_e((10, 20, 30), (10, 21, 30))})

    # cube^2, grey x near-neutral, hue-wrap pairs
    cb = cube(6 if ctx.quick else 9, offset=ctx.phase * 5)
    jobs = [(a, cb) for a in cb]
    greys = [(g, g, g) for g in range(ctx.phase % 5, 256, 5)]
    near = [(min(255, max(0, g + dr)), min(255, max(0, g + dg)), min(255, max(0, g + db)))
            for (g, _, _) in greys for dr in (-2, 0, 2) for dg in (-1, 0, 1) for db in (-2, 0, 1)]
    jobs += [(a, near) for a in greys]
    lo, hi = wrap_sets(ctx.phase)
    cap = 60 if ctx.quick else 400
    lo, hi = lo[:cap], hi[:cap]
    jobs += [(a, hi) for a in lo]
    m = 0
    for cnt, viol in ctx.pmap_chunks("mc.props.c11", "chunk_rows", jobs, chunksize=4):
        m += cnt
        ctx.add_violations(viol)
    ctx.sub("cube2_nearneutral_huewrap", states=m, transitions=2 * m, evaluations=m, traces=m,
            distinct_nontrivial=m - len(cb) - len(greys), exhaustive=True, cube=len(cb), wrap_lo=len(lo), wrap_hi=len(hi))
    if lo and hi:
        ctx.sample({"subcheck": "de_hue_wrap", "a": list(lo[0]), "b": list(hi[0]), "reference": ciede2000.delta_e(lo[0], hi[0])})
    # pairs with (almost) exactly opposite hues: the formula's one discontinuity.  Both branch values are accepted for a pair
    # that the Lab tolerance can move across the line; anything else must match the reference as everywhere
    anti = list(OPPOSITE_PAIRS)
    for g in (5, 60, 128, 200):
        rng = range(-5, 6)
        for dr in rng:
            for dg in rng:
                for db in rng:
                    if (dr, dg, db) != (0, 0, 0):
                        a, b = (g + dr, g + dg, g + db), (g - dr, g - dg, g - db)
                        if min(a + b) >= 0 and max(a + b) <= 255:
                            anti.append((a, b))
    na = nd = 0
    for cnt, viol, disc in ctx.pmap(chunk_opposite, [anti[i:i + 400] for i in range(0, len(anti), 400)]):
        na += cnt
        nd += disc
        ctx.add_violations(viol)
    ctx.sub("opposite_hue_pairs", states=na, transitions=2 * na, evaluations=na, traces=na, distinct_nontrivial=na, exhaustive=True,
            pairs_at_the_discontinuity=nd)
    ctx.sample({"subcheck": "de_opposite_hues", "a": [0, 10, 5], "b": [10, 0, 5],
                "reference_both_branches": [ciede2000.delta_e((0, 10, 5), (10, 0, 5)),
                                            ciede2000.delta_e_lab(cielab.rgb_to_lab((0, 10, 5)), cielab.rgb_to_lab((10, 0, 5)), other_branch=True)]})
    ctx.assumptions += [
        "a pair whose hue difference is within reach of 180 degrees under a Lab change of 0.05 has two CIE-conformant dE values (the "
        "formula is discontinuous there); the library must match one of them",
        "sRGB->XYZ matrix derived from the primaries and D65 = (95.047, 100, 108.883); CIE f(t) with exact constants",
        "CIEDE2000 per Sharma/Wu/Dalal 2005; agreement bound 0.05 (Lab, dE), 1e-4 on the published pairs",
    ]
