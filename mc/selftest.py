"""./check --selftest : validates the reference models against third parties (DESIGN.md section 3).

A failure here is a harness error (exit 2), never a verdict about cm-colors.
"""
import json
import math
import os
import subprocess
import sys

HOME = os.path.dirname(os.path.dirname(os.path.abspath(__file__)))


def st_wcag(fail):
    from mc.oracle import wcag

    if abs(wcag.ratio((0x76,) * 3, (255,) * 3) - 4.5422) > 1e-3:
        fail("wcag: #767676 on white should be 4.54")
    if abs(wcag.ratio((0, 0, 0), (255, 255, 255)) - 21.0) > 1e-12:
        fail("wcag: black on white should be 21")
    if not wcag.ratio((0x77,) * 3, (255,) * 3) < 4.5:
        fail("wcag: #777 on white is below 4.5")
    if wcag.minimum(True, True) != 4.5 or wcag.minimum(False, True) != 7.0 or wcag.minimum(True, False) != 3.0 or wcag.minimum(False, False) != 4.5:
        fail("wcag: minimum table")


def st_css_color(fail):
    import tinycss2.color3 as c3
    from mc.lattice import NAMED
    from mc.oracle import css_color

    for k, v in c3._COLOR_KEYWORDS.items():
        if k in ("currentcolor", "transparent"):
            continue
        if tuple(round(x * 255) for x in (v.red, v.green, v.blue)) != NAMED.get(k):
            fail("keyword table disagrees with tinycss2 on %s" % k)
    if NAMED.get("rebeccapurple") != (102, 51, 153) or len(NAMED) != 148:
        fail("keyword table: rebeccapurple / size")
    n = 0
    strs = []
    for h in range(-720, 721, 45):
        for s in (0, 15, 50, 100):
            for l in (0, 10, 50, 85, 100):
                strs.append("hsl(%d, %d%%, %d%%)" % (h, s, l))
                strs.append("hsla(%d, %d%%, %d%%, 0.25)" % (h, s, l))
    for r in (0, 1, 127, 128, 254, 255):
        for p in ("0%", "12.5%", "50%", "99.9%", "100%"):
            strs.append("rgb(%d, %d, %d)" % (r, 255 - r, 7))
            strs.append("rgb(%s, 0%%, 100%%)" % p)
            strs.append("rgba(%d, 0, 0, .5)" % r)
    strs += ["#abc", "#A1b2C3", "red", "DarkSlateGray", " rgb( 1 , 2 , 3 ) "]
    for s in strs:
        mine = css_color.parse(s)
        ref = c3.parse_color(s)
        if mine is None or ref is None:
            fail("css_color: %r parsed as %r / tinycss2 %r" % (s, mine, ref))
            continue
        n += 1
        for a, b in zip(mine[:3], (ref.red, ref.green, ref.blue)):
            if abs(float(a) / 255.0 - b) > 1e-9:
                fail("css_color: %r -> %r, tinycss2 %r" % (s, [float(x) for x in mine], tuple(ref)))
                break
        if abs(float(mine[3]) - ref.alpha) > 1e-9:
            fail("css_color: alpha of %r" % s)
    for bad in ("rgb(1,2)", "rgb(1,2,3,4)", "hsl(1,2,3)", "#12", "#12345", "rgb(1%,2,3)", "nope", "rgb(1 2 3)"):
        if css_color.parse(bad) is not None:
            fail("css_color accepts %r" % bad)
    return n


def st_lab(fail):
    from mc.oracle import cielab, ciede2000, oklab

    L, a, b = cielab.rgb_to_lab((255, 255, 255))
    if abs(L - 100) > 1e-9 or abs(a) > 1e-9 or abs(b) > 1e-9:
        fail("cielab: white is not (100,0,0)")
    for rgb, want in (((255, 0, 0), (53.2408, 80.0925, 67.2032)), ((0, 255, 0), (87.7347, -86.1827, 83.1793)), ((0, 0, 255), (32.2970, 79.1875, -107.8602))):
        got = cielab.rgb_to_lab(rgb)
        if any(abs(g - w) > 2e-3 for g, w in zip(got, want)):
            fail("cielab: %s -> %s, published %s" % (rgb, got, want))
    rows = json.load(open(os.path.join(HOME, "mc", "oracle", "sharma34.json")))
    for i, r in enumerate(rows):
        d = ciede2000.delta_e_lab(r[0:3], r[3:6])
        d2 = ciede2000.delta_e_lab(r[3:6], r[0:3])
        if abs(d - r[6]) > 1e-4 or abs(d2 - r[6]) > 1e-4:
            fail("ciede2000: Sharma pair %d gives %.5f, published %.4f" % (i + 1, d, r[6]))
    L, C, H = oklab.rgb_to_oklch((255, 255, 255))
    if abs(L - 1) > 1e-7 or C > 1e-6:
        fail("oklab: white")
    for rgb, want in (((255, 0, 0), (0.628, 0.2577, 29.23)), ((0, 255, 0), (0.8664, 0.2948, 142.5)), ((0, 0, 255), (0.452, 0.3132, 264.05))):
        got = oklab.rgb_to_oklch(rgb)
        if abs(got[0] - want[0]) > 6e-4 or abs(got[1] - want[1]) > 6e-4 or abs(got[2] - want[2]) > 0.06:
            fail("oklab: %s -> %s, CSS Color 4 quotes %s" % (rgb, got, want))
    for rgb in ((0, 0, 0), (255, 255, 255), (18, 52, 86), (200, 16, 46), (1, 255, 2)):
        if oklab.oklch_to_rgb(oklab.rgb_to_oklch(rgb)) != rgb:
            fail("oklab: round trip of %s" % (rgb,))


def st_tokens(fail):
    import tinycss2
    from mc.cli import sheetgen as G
    from mc.oracle import css_tokens as T
    from mc.props import c09

    n = 0
    texts = list(c09.PT.values())
    for k in list(G.KINDS):
        texts.append(G.Sheet([(k, "none")]).text)
        if k not in ("root_literal", "html_literal"):
            texts.append(G.Sheet([(k, "media_supports")]).text)
    for x in texts:
        y = tinycss2.serialize(tinycss2.parse_stylesheet(x, skip_whitespace=False, skip_comments=False))
        # tinycss2 keeps an escaped surrogate code point as a lone surrogate; css-syntax (and the reference tokenizer) say U+FFFD
        y = "".join("\ufffd" if 0xD800 <= ord(ch) <= 0xDFFF else ch for ch in y)
        if T.tree(x) != T.tree(y):
            fail("css_tokens: tree of %r differs after a tinycss2 parse/serialise round trip" % x[:60])
        n += 1
    # token-level agreement with tinycss2 on tricky snippets
    for s, want in (("a{b:U+0025-00FF}", ("urange", (0x25, 0xFF))), ("a{b:u+4??}", ("urange", (0x400, 0x4FF))), ("#x\\31 23{}", ("hash", "x123")),
                    (".a\\:b{}", ("ident", "a:b")), ("a{b:url( 'q' )}", ("function", "url")), ("a{b:2.5e1px}", ("dimension", (25.0, "px")))):
        if want not in T.tokenize(s):
            fail("css_tokens: %r should contain %r, got %r" % (s, want, T.tokenize(s)))
    return n


def st_evidence(fail):
    """Validate whatever evidence files exist against the schema with the tooling venv's jsonschema (if present)."""
    schema = "/root/.vp/EVIDENCE.schema.json"
    py = "/opt/veriftools/pyvenv/bin/python"
    ev = os.path.join(HOME, "evidence")
    if not (os.path.exists(schema) and os.path.exists(py) and os.path.isdir(ev)):
        return 0
    files = [os.path.join(ev, f) for f in sorted(os.listdir(ev)) if f.endswith(".json")]
    if not files:
        return 0
    code = ("import json,sys,jsonschema\ns=json.load(open(%r))\nbad=0\nfor f in sys.argv[1:]:\n try:\n  jsonschema.validate(json.load(open(f)),s)\n"
            " except Exception as e:\n  bad+=1;print('EVIDENCE-INVALID',f,str(e)[:200])\nsys.exit(1 if bad else 0)\n" % schema)
    r = subprocess.run([py, "-c", code] + files, capture_output=True, text=True)
    if r.returncode != 0:
        fail("evidence schema: " + r.stdout[-400:] + r.stderr[-200:])
    return len(files)


def main():
    failures = []
    fail = failures.append
    st_wcag(fail)
    n1 = st_css_color(fail)
    st_lab(fail)
    n2 = st_tokens(fail)
    n3 = st_evidence(fail)
    if failures:
        for f in failures[:40]:
            print("SELFTEST-FAIL:", f, file=sys.stderr)
        return 2
    print("selftest ok: %d colour strings vs tinycss2.color3, 34 Sharma pairs, %d stylesheets round-tripped, %d evidence files valid" % (n1, n2, n3))
    return 0
