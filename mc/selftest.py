"""./check --selftest : validates the reference models against third parties (DESIGN.md section 3)."""
import sys


def main():
    failures = []
    from mc.oracle import wcag

    def expect(name, cond, detail=""):
        if not cond:
            failures.append("%s %s" % (name, detail))

    # WCAG worked values
    expect("wcag #767676/white", abs(wcag.ratio((0x76,) * 3, (255,) * 3) - 4.5422) < 1e-3)
    expect("wcag black/white", abs(wcag.ratio((0, 0, 0), (255, 255, 255)) - 21.0) < 1e-12)
    expect("wcag #777/white < 4.5", wcag.ratio((0x77,) * 3, (255,) * 3) < 4.5)
    for mod in ("st_css_color", "st_oklab", "st_cielab", "st_tokens"):
        fn = globals().get(mod)
        if fn:
            failures.extend(fn())
    if failures:
        for f in failures:
            print("SELFTEST-FAIL:", f, file=sys.stderr)
        return 2
    print("selftest ok")
    return 0
