"""Runner: tiers, seed->phase, worker pool, evidence writer, VIOLATION / KNOWN-FINDING lines.

Contract (see MANIFEST.json):
  exit 0  property held on everything explored (KNOWN-FINDING lines allowed)
  exit 1  at least one violation not listed in known_findings.txt; prints
          "VIOLATION property=<id> replay=<path>"
  exit 2  harness error (never a verdict about the property)
"""
import argparse
import hashlib
import importlib
import json
import multiprocessing as mp
import os
import subprocess
import sys
import time
import traceback

HOME = os.environ.get("VERIF_HOME") or os.path.dirname(os.path.dirname(os.path.abspath(__file__)))
REPO = os.environ.get("VERIF_REPO", "/repo")
NPROC = int(os.environ.get("VERIF_NPROC", "0")) or min(16, os.cpu_count() or 4)
PHASES = 4
ALL_IDS = ["C%02d" % i for i in range(1, 20)]


class HarnessError(Exception):
    pass


def bind_repo():
    """Assert that the cm_colors being explored is the working tree under $VERIF_REPO."""
    import cm_colors

    p = os.path.realpath(cm_colors.__file__)
    want = os.path.realpath(os.path.join(REPO, "src")) + os.sep
    if not p.startswith(want):
        raise HarnessError("cm_colors imported from %s, expected under %s" % (p, want))
    return p


def canon(obj):
    return json.dumps(obj, sort_keys=True, default=repr, ensure_ascii=True)


def case_sha(prop, sig, case):
    return hashlib.sha1(canon([prop, sig, case]).encode()).hexdigest()[:12]


class Ctx:
    """Passed to every property module's run()."""

    def __init__(self, prop, tier, seed):
        self.prop = prop
        self.tier = tier
        self.seed = seed
        self.phase = seed % PHASES
        self.quick = tier == "quick"
        self.t0 = time.time()
        self._pool = None
        self.viol_by_sig = {}  # sig -> list of violation dicts (capped)
        self.viol_count = {}  # sig -> total count
        self.cov = {
            "states": 0,
            "transitions": 0,
            "traces_validated_against_impl": 0,
            "evaluations": 0,
            "distinct_nontrivial": 0,
            "samples": [],
            "exhaustive": True,
            "subchecks": {},
            "skipped_subchecks": [],
            "undecidable": 0,
        }
        self.assumptions = []
        self.known_hit = {}
        self.recorded = {}
        self.known_cases = {}   # sig -> set of case hashes (known findings are identified by the specific failing input)
        known, _ = load_known()
        for k in known:
            if k.get("property") == prop and k.get("cases"):
                fp = os.path.join(HOME, k["cases"])
                try:
                    self.known_cases[k["sig"]] = set(json.load(open(fp))["cases"])
                except Exception:  # noqa
                    self.known_cases[k["sig"]] = set()

    # ---- parallel map -------------------------------------------------------------------
    def pool(self):
        if self._pool is None:
            self._pool = mp.get_context("fork").Pool(NPROC)
        return self._pool

    def pmap(self, fn, items, chunksize=1):
        """Ordered map over a worker pool forked *now* (module tables must exist already)."""
        if NPROC == 1:
            return map(fn, items)
        return self.pool().imap(fn, items, chunksize)

    def pmap_forked(self, fn, items, chunksize=1):
        """Like pmap, but every item is evaluated in its own child forked from the worker, so no library state
        (caches, module-level scratch) survives from one item to the next and a reported case replays alone."""
        from mc.explore.forked import call_forked

        return self.pmap(call_forked, [(fn, it) for it in items], chunksize)

    def pmap_chunks(self, module, fn_name, args, chunksize=1):
        """pmap_forked for chunk workers taking one JSON-able argument; see mc/explore/forked.call_chunk."""
        from mc.explore.forked import call_chunk

        return self.pmap(call_chunk, [(module, fn_name, a) for a in args], chunksize)

    def close(self):
        if self._pool is not None:
            self._pool.terminate()
            self._pool.join()
            self._pool = None

    def reset_pool(self):
        """Drop the pool so the next pmap forks from the parent's *current* state."""
        self.close()

    # ---- bookkeeping -------------------------------------------------------------------
    def add_violations(self, vs):
        for v in vs:
            sig = v.get("sig", "unclassified")
            cases = self.known_cases.get(sig)
            if cases is not None and case_sha(self.prop, sig, v.get("case")) in cases:
                # a listed finding: this exact input fails with this exact signature on the unchanged tree
                self.known_hit[sig] = self.known_hit.get(sig, 0) + 1
                continue
            self.viol_count[sig] = self.viol_count.get(sig, 0) + 1
            lst = self.viol_by_sig.setdefault(sig, [])
            if len(lst) < 8:
                lst.append(v)
            if os.environ.get("VERIF_RECORD_CASES"):
                self.recorded.setdefault(sig, set()).add(case_sha(self.prop, sig, v.get("case")))

    def sub(self, name, **kw):
        """Record coverage of a sub-check and fold its counts into the totals."""
        d = self.cov["subchecks"].setdefault(name, {})
        for k, v in kw.items():
            if isinstance(v, bool) or not isinstance(v, (int, float)):
                d[k] = v
            else:
                d[k] = d.get(k, 0) + v
        for k in ("states", "transitions", "evaluations", "distinct_nontrivial", "undecidable"):
            if k in kw:
                self.cov[k] += kw[k]
        if "traces" in kw:
            self.cov["traces_validated_against_impl"] += kw["traces"]
        if kw.get("exhaustive") is False:
            self.cov["exhaustive"] = False

    def skip(self, name, why):
        self.cov["skipped_subchecks"].append({"subcheck": name, "why": why})

    def sample(self, s, cap=12):
        if len(self.cov["samples"]) < cap:
            self.cov["samples"].append(s)

    def elapsed(self):
        return time.time() - self.t0


# ----------------------------------------------------------------------------------------
def load_known():
    known, fixed = [], []
    p = os.path.join(HOME, "known_findings.txt")
    if os.path.exists(p):
        for line in open(p, encoding="utf-8"):
            line = line.strip()
            if line.startswith("known:"):
                head, _, what = line[len("known:"):].partition("::")
                d = dict(tok.split("=", 1) for tok in head.split() if "=" in tok)
                d["what"] = what.strip()
                known.append(d)
            elif line.startswith("fixed:"):
                fixed.append(line)
    return known, fixed


def write_replay(prop, v):
    d = os.path.join(os.environ.get("VERIF_REPLAY_DIR") or os.path.join(HOME, "replays"), prop)
    os.makedirs(d, exist_ok=True)
    sha = case_sha(prop, v.get("sig"), v.get("case"))
    path = os.path.join(d, sha + ".json")
    doc = {
        "property": prop,
        "sig": v.get("sig"),
        "case": v.get("case"),
        "msg": v.get("msg"),
        "observed": v.get("observed"),
        "expected": v.get("expected"),
        "replay_cmd": "./check %s --replay %s" % (prop, path),
    }
    with open(path, "w", encoding="utf-8") as f:
        json.dump(doc, f, indent=1, sort_keys=True, default=repr)
    test = os.path.join(d, sha + "_test.py")
    with open(test, "w", encoding="utf-8") as f:
        f.write(
            "# Replays one recorded case against the working tree without the explorer.\n"
            "# run:  VERIF_REPO=/repo /venv/bin/python %s\n"
            "import json, os, sys\n"
            "HOME = %r\n"
            "sys.path[:0] = [os.path.join(os.environ.get('VERIF_REPO', '/repo'), 'src'), HOME]\n"
            "from mc.props import %s as P\n"
            "case = json.load(open(%r))['case']\n"
            "found = P.judge_case(case)\n"
            "assert not found, found\n"
            "print('property holds on this case')\n" % (test, HOME, prop.lower(), path)
        )
    return path


def confirm_fresh(prop, v):
    """Re-execute one failing case in a fresh interpreter; it must fail again."""
    path = write_replay(prop, v)
    r = subprocess.run(
        [sys.executable, "-m", "mc.runner", prop, "--replay", path, "--quiet"],
        cwd=HOME, capture_output=True, text=True, timeout=1800,
    )
    return path, r.returncode, (r.stdout + r.stderr)[-2000:]


def write_evidence(ctx, nviol, extra=None):
    cov = dict(ctx.cov)
    cov.setdefault("rule", "")
    if cov["states"] < 1 or cov["transitions"] < 1:
        raise HarnessError("vacuous run: no states/transitions recorded")
    if not cov["samples"]:
        raise HarnessError("no samples recorded")
    doc = {
        "property_id": ctx.prop,
        "tier": ctx.tier,
        "seed": ctx.seed,
        "level": "model_checking",
        "coverage": cov,
        "assumptions": ctx.assumptions,
        "wall_s": round(ctx.elapsed(), 2),
        "violations": nviol,
    }
    if extra:
        doc.update(extra)
    d = os.environ.get("VERIF_EVIDENCE_DIR") or os.path.join(HOME, "evidence")
    os.makedirs(d, exist_ok=True)
    tmp = os.path.join(d, ctx.prop + ".json.tmp")
    with open(tmp, "w", encoding="utf-8") as f:
        json.dump(doc, f, indent=1, default=repr)
    os.replace(tmp, os.path.join(d, ctx.prop + ".json"))


def run_property(prop, tier, seed, quiet=False):
    mod = importlib.import_module("mc.props." + prop.lower())
    ctx = Ctx(prop, tier, seed)
    ctx.cov["repo"] = REPO
    ctx.cov["phase"] = ctx.phase
    try:
        mod.run(ctx)
    finally:
        ctx.close()
    known, _fixed = load_known()
    known = [k for k in known if k.get("property") == prop]
    known_sigs = {k["sig"]: k for k in known}
    hit = dict(ctx.known_hit)
    new = []
    for sig, lst in sorted(ctx.viol_by_sig.items()):
        new.extend(lst[:4])
    if os.environ.get("VERIF_RECORD_CASES"):
        # maintenance mode (never used by the registered commands): dump the hashes of every failing case per signature
        d = os.environ["VERIF_RECORD_CASES"]
        os.makedirs(d, exist_ok=True)
        with open(os.path.join(d, "%s_%s_%d.json" % (prop, tier, ctx.phase)), "w") as f:
            json.dump({k: sorted(v) for k, v in ctx.recorded.items()}, f)
    replays = []
    confirmed = []
    for v in new[:12]:
        path, rc, out = confirm_fresh(prop, v)
        if rc != 1 and v.get("chunk_case"):
            # not reproducible alone: replay the whole chunk it was observed in (the failure depends on earlier cases)
            v2 = dict(v, case=v["chunk_case"], sig=v.get("sig"), msg="[only after the earlier cases of its chunk] " + str(v.get("msg")))
            path, rc, out = confirm_fresh(prop, v2)
            v = v2
        if rc != 1:
            raise HarnessError(
                "case failed in the sweep but not when replayed in a fresh interpreter "
                "(rc=%s): %s\n%s" % (rc, path, out)
            )
        replays.append(path)
        confirmed.append(v)
    new = confirmed
    ctx.cov["known_findings_hit"] = hit
    ctx.cov["violation_signatures"] = dict(ctx.viol_count)
    nviol = sum(ctx.viol_count.values())
    write_evidence(ctx, nviol)
    for sig, n in sorted(hit.items()):
        k = known_sigs[sig]
        print("KNOWN-FINDING: property=%s sig=%s cases=%d %s" % (prop, sig, n, k["what"]))
    for k in known:
        if k["sig"] not in hit:
            print("note: listed finding sig=%s was not observed in this run" % k["sig"])
    if not quiet:
        c = ctx.cov
        print(
            "%s tier=%s phase=%d states=%d transitions=%d nontrivial=%d exhaustive=%s "
            "undecidable=%d skipped=%d wall=%.1fs"
            % (prop, tier, ctx.phase, c["states"], c["transitions"], c["distinct_nontrivial"],
               c["exhaustive"], c["undecidable"], len(c["skipped_subchecks"]), ctx.elapsed())
        )
    if new:
        for v, path in zip(new, replays):
            print("  %s: %s" % (v.get("sig"), v.get("msg")))
            print("VIOLATION property=%s replay=%s" % (prop, path))
        return 1
    return 0


def replay(prop, path, quiet=False):
    mod = importlib.import_module("mc.props." + prop.lower())
    doc = json.load(open(path, encoding="utf-8"))
    if isinstance(doc["case"], dict) and doc["case"].get("kind") == "chunk" and "module" in doc["case"]:
        from mc.explore.forked import replay_chunk

        found = replay_chunk(doc["case"])
    else:
        found = mod.judge_case(doc["case"])
    if found:
        if not quiet:
            for v in found:
                print("  %s: %s" % (v.get("sig"), v.get("msg")))
        c = Ctx(prop, "quick", 0)
        if all(v.get("sig") in c.known_cases and case_sha(prop, v.get("sig"), v.get("case")) in c.known_cases[v.get("sig")] for v in found):
            print("KNOWN-FINDING: property=%s sig=%s (replay)" % (prop, found[0].get("sig")))
            return 0
        print("VIOLATION property=%s replay=%s" % (prop, path))
        return 1
    if not quiet:
        print("%s: property holds on the replayed case" % prop)
    return 0


def main(argv=None):
    ap = argparse.ArgumentParser()
    ap.add_argument("prop", nargs="?")
    ap.add_argument("--tier", default=os.environ.get("VERIF_TIER") or "quick",
                    choices=["quick", "thorough"])
    ap.add_argument("--replay")
    ap.add_argument("--selftest", action="store_true")
    ap.add_argument("--quiet", action="store_true")
    a = ap.parse_args(argv)
    try:
        seed = int(os.environ.get("VERIF_SEED", "0") or 0)
    except ValueError:
        seed = 0
    try:
        bind_repo()
        if a.selftest:
            from mc import selftest

            return selftest.main()
        if not a.prop or a.prop.upper() not in ALL_IDS:
            print("usage: check <C01..C19> [--tier quick|thorough] [--replay F] | --selftest")
            return 2
        prop = a.prop.upper()
        if a.replay:
            return replay(prop, a.replay, a.quiet)
        return run_property(prop, a.tier, seed, a.quiet)
    except HarnessError as e:
        print("HARNESS-ERROR: %s" % e, file=sys.stderr)
        return 2
    except Exception:
        traceback.print_exc()
        print("HARNESS-ERROR: unexpected exception", file=sys.stderr)
        return 2


if __name__ == "__main__":
    sys.exit(main())
