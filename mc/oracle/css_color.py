"""CSS Color Module Level 3 <color> value parser - reference model in exact rationals.

Written from the specification (section 4: numerical colour values, HSL algorithm, keywords).
Out of scope (as in property C07): exponent notation, Level 4 syntax.
Channels are returned as Fractions on the 0..255 scale, alpha as a Fraction in [0,1].
"""
import re
from fractions import Fraction as F

from mc.lattice import NAMED

_WS = r"[ \t\n\r\f]*"
_NUM = r"[+-]?(?:\d+\.\d+|\.\d+|\d+)"
_INT = r"[+-]?\d+"
_FUNC = re.compile(r"^(rgba?|hsla?)\((.*)\)$", re.I | re.S)
_HEX = re.compile(r"^#([0-9a-fA-F]{3}|[0-9a-fA-F]{6})$")
_BAREHEX = re.compile(r"^([0-9a-fA-F]{3}|[0-9a-fA-F]{6})$")


def _clamp(x, lo, hi):
    return lo if x < lo else hi if x > hi else x


def _args(body):
    parts = body.split(",")
    out = []
    for p in parts:
        p = p.strip(" \t\n\r\f")
        if not p:
            return None
        out.append(p)
    return out


def hsl_to_rgb_exact(h, s, l):
    """CSS Color 3 section 4.2.4; h in degrees (any Fraction), s, l Fractions in [0,1] -> 0..1."""
    h = (h % 360) / 360

    def hue2rgb(m1, m2, hh):
        if hh < 0:
            hh += 1
        if hh > 1:
            hh -= 1
        if hh * 6 < 1:
            return m1 + (m2 - m1) * hh * 6
        if hh * 2 < 1:
            return m2
        if hh * 3 < 2:
            return m1 + (m2 - m1) * (F(2, 3) - hh) * 6
        return m1

    m2 = l * (s + 1) if l * 2 <= 1 else l + s - l * s
    m1 = l * 2 - m2
    return (hue2rgb(m1, m2, h + F(1, 3)), hue2rgb(m1, m2, h), hue2rgb(m1, m2, h - F(1, 3)))


def parse(text, allow_bare_hex=False):
    """-> (r, g, b, alpha) Fractions (rgb on 0..255) or None when not a CSS Color 3 value."""
    if not isinstance(text, str):
        return None
    s = text.strip(" \t\n\r\f")
    low = s.lower()
    if low in NAMED:
        r, g, b = NAMED[low]
        return (F(r), F(g), F(b), F(1))
    m = _HEX.match(s) or (allow_bare_hex and _BAREHEX.match(s))
    if m:
        h = m.group(1)
        if len(h) == 3:
            h = "".join(c * 2 for c in h)
        return (F(int(h[0:2], 16)), F(int(h[2:4], 16)), F(int(h[4:6], 16)), F(1))
    m = _FUNC.match(s)
    if not m:
        return None
    name, body = m.group(1).lower(), m.group(2)
    a = _args(body)
    if a is None:
        return None
    want = 4 if name.endswith("a") else 3
    if len(a) != want:
        return None
    alpha = F(1)
    if want == 4:
        if not re.fullmatch(_NUM, a[3]):
            return None
        alpha = _clamp(F(a[3]), F(0), F(1))
    if name.startswith("rgb"):
        if all(re.fullmatch(_INT, x) for x in a[:3]):
            ch = [_clamp(F(int(x)), F(0), F(255)) for x in a[:3]]
        elif all(re.fullmatch(_NUM + "%", x) for x in a[:3]):
            ch = [_clamp(F(x[:-1]), F(0), F(100)) * 255 / 100 for x in a[:3]]
        else:
            return None
        return (ch[0], ch[1], ch[2], alpha)
    # hsl
    if not re.fullmatch(_NUM, a[0]):
        return None
    if not all(re.fullmatch(_NUM + "%", x) for x in a[1:3]):
        return None
    h = F(a[0])
    sat = _clamp(F(a[1][:-1]), F(0), F(100)) / 100
    lig = _clamp(F(a[2][:-1]), F(0), F(100)) / 100
    r, g, b = hsl_to_rgb_exact(h, sat, lig)
    return (r * 255, g * 255, b * 255, alpha)


def nearest8(x):
    """Set of acceptable 8-bit values for an exact channel value on the 0..255 scale."""
    x = _clamp(x, F(0), F(255))
    fl = x.numerator // x.denominator
    fr = x - fl
    if fr * 2 < 1:
        return {fl}
    if fr * 2 > 1:
        return {fl + 1}
    return {fl, fl + 1}


def blend(fg, alpha, bg):
    """source-over, per channel, exact; fg/bg on the 0..255 scale."""
    return tuple(alpha * f + (1 - alpha) * F(b) for f, b in zip(fg, bg))


def read_opaque(text, allow_bare_hex=False):
    """Read a returned colour 'as a CSS consumer reads it': tuple of candidate sets, or None."""
    p = parse(text, allow_bare_hex)
    if p is None or p[3] != 1:
        return None
    return tuple(nearest8(c) for c in p[:3])


def read_unique(value, allow_bare_hex=False):
    """An opaque colour value (CSS string or tuple/list of 3 ints) -> unique (r,g,b) or None.

    Returns None when the value is not valid or when a channel sits exactly on a rounding tie.
    """
    if isinstance(value, (tuple, list)):
        if len(value) == 3 and all(isinstance(v, int) and not isinstance(v, bool) and 0 <= v <= 255 for v in value):
            return tuple(value)
        return None
    sets = read_opaque(value, allow_bare_hex)
    if sets is None or any(len(s) != 1 for s in sets):
        return None
    return tuple(next(iter(s)) for s in sets)


# ---- float fast path for whole-domain hsl() read-back (C06) --------------------------------
_HSL_FAST = re.compile(r"^hsl\(" + _WS + r"(" + _NUM + r")" + _WS + "," + _WS + r"(" + _NUM + r")%" + _WS + "," + _WS
                       + r"(" + _NUM + r")%" + _WS + r"\)$", re.I)


def read_hsl_fast(text):
    """hsl() string -> (r,g,b) via floats; falls back to exact rationals near rounding boundaries.
    Returns a tuple of candidate sets like read_opaque, or None if not valid CSS."""
    m = _HSL_FAST.match(text.strip(" \t\n\r\f"))
    if not m:
        return read_opaque(text)
    h, s, l = float(m.group(1)), float(m.group(2)), float(m.group(3))
    s = min(100.0, max(0.0, s)) / 100.0
    l = min(100.0, max(0.0, l)) / 100.0
    h = (h % 360.0) / 360.0
    m2 = l * (s + 1) if l <= 0.5 else l + s - l * s
    m1 = l * 2 - m2
    out = []
    for hh in (h + 1 / 3, h, h - 1 / 3):
        if hh < 0:
            hh += 1
        if hh > 1:
            hh -= 1
        if hh * 6 < 1:
            v = m1 + (m2 - m1) * hh * 6
        elif hh * 2 < 1:
            v = m2
        elif hh * 3 < 2:
            v = m1 + (m2 - m1) * (2 / 3 - hh) * 6
        else:
            v = m1
        v *= 255.0
        fr = v - int(v)
        if abs(fr - 0.5) < 1e-6 or abs(hh * 6 - 1) < 1e-9 or abs(hh * 2 - 1) < 1e-9 or abs(hh * 3 - 2) < 1e-9:
            return read_opaque(text)
        out.append({int(v + 0.5)})
    return tuple(out)
