"""Minimal HTML tree builder on html.parser (entities decoded in text and attribute values)."""
from html.parser import HTMLParser

VOID = {"meta", "link", "br", "hr", "img", "input", "area", "base", "col", "embed", "source", "track", "wbr"}


class _P(HTMLParser):
    def __init__(self):
        super().__init__(convert_charrefs=True)
        self.events = []

    def handle_starttag(self, tag, attrs):
        self.events.append(("start", tag, attrs))

    def handle_startendtag(self, tag, attrs):
        self.events.append(("start", tag, attrs))
        self.events.append(("end", tag))

    def handle_endtag(self, tag):
        self.events.append(("end", tag))

    def handle_data(self, data):
        if self.events and self.events[-1][0] == "text":
            self.events[-1] = ("text", self.events[-1][1] + data)
        else:
            self.events.append(("text", data))

    def handle_comment(self, data):
        self.events.append(("comment", data))

    def handle_decl(self, decl):
        self.events.append(("decl", decl))


def events(html_text):
    p = _P()
    p.feed(html_text)
    p.close()
    return p.events


def skeleton(evs):
    """Tags, attribute names, class values and nesting - everything but text content and non-class attribute values."""
    out = []
    for e in evs:
        if e[0] == "start":
            attrs = tuple((k, v if k in ("class", "lang", "charset", "name", "rel") else None) for k, v in e[2])
            out.append(("start", e[1], attrs))
        elif e[0] == "end":
            out.append(("end", e[1]))
        elif e[0] in ("comment", "decl"):
            out.append((e[0],))
        elif e[0] == "text" and e[1].strip():
            out.append(("text",))
    return out


def texts_by_class(evs):
    """{class value: [text content of elements with that class, in order]} (direct text only)."""
    out = {}
    stack = []
    for e in evs:
        if e[0] == "start":
            cls = dict(e[2]).get("class")
            if e[1] not in VOID:
                stack.append((e[1], cls))
        elif e[0] == "end":
            for i in range(len(stack) - 1, -1, -1):
                if stack[i][0] == e[1]:
                    del stack[i:]
                    break
        elif e[0] == "text" and stack and stack[-1][1]:
            out.setdefault(stack[-1][1], []).append(e[1])
    return out


def attrs_by_class(evs, attr):
    out = {}
    for e in evs:
        if e[0] == "start":
            d = dict(e[2])
            if d.get("class") and attr in d:
                out.setdefault(d["class"], []).append(d[attr])
    return out
