"""sRGB (IEC 61966-2-1) -> CIE XYZ -> CIE 1976 L*a*b*, D65 - reference model.

The RGB->XYZ matrix is *derived* here in exact rationals from the sRGB primaries' chromaticities and
the D65 white tristimulus (95.047, 100, 108.883; CIE 1931 2 degree observer), so white maps to
a* = b* = 0 exactly.  f(t) uses the exact CIE constants (6/29)^3 = 216/24389 and 24389/27.
"""
from fractions import Fraction as F

_PRIM = ((F(64, 100), F(33, 100)), (F(30, 100), F(60, 100)), (F(15, 100), F(6, 100)))
WHITE = (F(95047, 100000), F(1), F(108883, 100000))


def _derive():
    cols = [(x / y, F(1), (1 - x - y) / y) for x, y in _PRIM]
    # solve  sum_j S_j * cols[j] = WHITE  (3x3, Cramer)
    def det(m):
        return (m[0][0] * (m[1][1] * m[2][2] - m[1][2] * m[2][1]) - m[0][1] * (m[1][0] * m[2][2] - m[1][2] * m[2][0])
                + m[0][2] * (m[1][0] * m[2][1] - m[1][1] * m[2][0]))

    A = [[cols[j][i] for j in range(3)] for i in range(3)]
    d = det(A)
    S = []
    for j in range(3):
        B = [row[:] for row in A]
        for i in range(3):
            B[i][j] = WHITE[i]
        S.append(det(B) / d)
    return [[float(S[j] * cols[j][i]) for j in range(3)] for i in range(3)]


M = _derive()
XN, YN, ZN = (float(v) for v in WHITE)
_EPS = 216.0 / 24389.0
_KAPPA = 24389.0 / 27.0


def _s2l(v):
    return v / 12.92 if v <= 0.04045 else ((v + 0.055) / 1.055) ** 2.4


_LIN = [_s2l(i / 255.0) for i in range(256)]


def _f(t):
    return t ** (1.0 / 3.0) if t > _EPS else (_KAPPA * t + 16.0) / 116.0


def rgb_to_xyz(rgb):
    r, g, b = (_LIN[c] for c in rgb)
    return tuple(m[0] * r + m[1] * g + m[2] * b for m in M)


def rgb_to_lab(rgb):
    x, y, z = rgb_to_xyz(rgb)
    fx, fy, fz = _f(x / XN), _f(y / YN), _f(z / ZN)
    return (116.0 * fy - 16.0, 500.0 * (fx - fy), 200.0 * (fy - fz))
