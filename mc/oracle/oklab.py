"""OKLab / OKLCH reference model - Bjorn Ottosson, "A perceptual color space for image processing"
(2020-12-23 revision of the matrices, the ones also quoted by CSS Color 4)."""
import math

M1 = ((0.4122214708, 0.5363325363, 0.0514459929),
      (0.2119034982, 0.6806995451, 0.1073969566),
      (0.0883024619, 0.2817188376, 0.6299787005))
M2 = ((0.2104542553, 0.7936177850, -0.0040720468),
      (1.9779984951, -2.4285922050, 0.4505937099),
      (0.0259040371, 0.7827717662, -0.8086757660))
M2I = ((1.0, 0.3963377774, 0.2158037573),
       (1.0, -0.1055613458, -0.0638541728),
       (1.0, -0.0894841775, -1.2914855480))
M1I = ((4.0767416621, -3.3077115913, 0.2309699292),
       (-1.2684380046, 2.6097574011, -0.3413193965),
       (-0.0041960863, -0.7034186147, 1.7076147010))


def _s2l(v):
    return v / 12.92 if v <= 0.04045 else ((v + 0.055) / 1.055) ** 2.4


def _l2s(v):
    return 12.92 * v if v <= 0.0031308 else 1.055 * v ** (1 / 2.4) - 0.055


_LIN = [_s2l(i / 255.0) for i in range(256)]


def _cbrt(x):
    return math.copysign(abs(x) ** (1.0 / 3.0), x)


def rgb_to_oklab(rgb):
    r, g, b = (_LIN[c] for c in rgb)
    lms = [_cbrt(m[0] * r + m[1] * g + m[2] * b) for m in M1]
    return tuple(m[0] * lms[0] + m[1] * lms[1] + m[2] * lms[2] for m in M2)


def rgb_to_oklch(rgb):
    L, a, b = rgb_to_oklab(rgb)
    C = math.hypot(a, b)
    H = math.degrees(math.atan2(b, a)) % 360.0
    return L, C, H


def oklch_to_linear(lch):
    L, C, H = lch
    a, b = C * math.cos(math.radians(H)), C * math.sin(math.radians(H))
    lms = [(m[0] * L + m[1] * a + m[2] * b) ** 3 for m in M2I]
    return [m[0] * lms[0] + m[1] * lms[1] + m[2] * lms[2] for m in M1I]


def oklch_to_rgb_float(lch):
    """per-channel clip in linear light, then the sRGB transfer function; floats on 0..255."""
    return [_l2s(min(1.0, max(0.0, v))) * 255.0 for v in oklch_to_linear(lch)]


def oklch_to_rgb(lch):
    return tuple(min(255, max(0, int(math.floor(v + 0.5)))) for v in oklch_to_rgb_float(lch))
