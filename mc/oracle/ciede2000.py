"""CIEDE2000 colour difference, following Sharma, Wu, Dalal, "The CIEDE2000 Color-Difference Formula:
Implementation Notes, Supplementary Test Data, and Mathematical Observations" (2005), eqs. (2)-(22)."""
import math

from mc.oracle import cielab


def delta_e_lab(lab1, lab2, kL=1.0, kC=1.0, kH=1.0, other_branch=False):
    """other_branch=True evaluates the formula on the other side of its discontinuity at a hue difference of exactly 180
    degrees (both the sign of dh' and the mean-hue branch flip there) - see hue_gap()."""
    L1, a1, b1 = lab1
    L2, a2, b2 = lab2
    C1 = math.hypot(a1, b1)
    C2 = math.hypot(a2, b2)
    Cb = (C1 + C2) / 2.0
    G = 0.5 * (1.0 - math.sqrt(Cb ** 7 / (Cb ** 7 + 25.0 ** 7)))
    ap1, ap2 = (1.0 + G) * a1, (1.0 + G) * a2
    Cp1, Cp2 = math.hypot(ap1, b1), math.hypot(ap2, b2)

    def hp(b, ap):
        if b == 0 and ap == 0:
            return 0.0
        h = math.degrees(math.atan2(b, ap))
        return h + 360.0 if h < 0 else h

    hp1, hp2 = hp(b1, ap1), hp(b2, ap2)
    dLp = L2 - L1
    dCp = Cp2 - Cp1
    if Cp1 * Cp2 == 0:
        dhp = 0.0
    else:
        d = hp2 - hp1
        if abs(d) <= 180.0:
            dhp = d
        elif d > 180.0:
            dhp = d - 360.0
        else:
            dhp = d + 360.0
        if other_branch:
            dhp = dhp - 360.0 if dhp > 0 else dhp + 360.0   # the equivalent angle on the other side of +-180
    dHp = 2.0 * math.sqrt(Cp1 * Cp2) * math.sin(math.radians(dhp / 2.0))
    Lbp = (L1 + L2) / 2.0
    Cbp = (Cp1 + Cp2) / 2.0
    if Cp1 * Cp2 == 0:
        hbp = hp1 + hp2
    else:
        s = hp1 + hp2
        if (abs(hp1 - hp2) <= 180.0) != other_branch:
            hbp = s / 2.0
        elif s < 360.0:
            hbp = (s + 360.0) / 2.0
        else:
            hbp = (s - 360.0) / 2.0
    T = (1.0 - 0.17 * math.cos(math.radians(hbp - 30.0)) + 0.24 * math.cos(math.radians(2.0 * hbp))
         + 0.32 * math.cos(math.radians(3.0 * hbp + 6.0)) - 0.20 * math.cos(math.radians(4.0 * hbp - 63.0)))
    dth = 30.0 * math.exp(-(((hbp - 275.0) / 25.0) ** 2))
    Rc = 2.0 * math.sqrt(Cbp ** 7 / (Cbp ** 7 + 25.0 ** 7))
    Sl = 1.0 + 0.015 * (Lbp - 50.0) ** 2 / math.sqrt(20.0 + (Lbp - 50.0) ** 2)
    Sc = 1.0 + 0.045 * Cbp
    Sh = 1.0 + 0.015 * Cbp * T
    Rt = -math.sin(math.radians(2.0 * dth)) * Rc
    x, y, z = dLp / (kL * Sl), dCp / (kC * Sc), dHp / (kH * Sh)
    return math.sqrt(max(0.0, x * x + y * y + z * z + Rt * y * z))


def delta_e(rgb1, rgb2):
    return delta_e_lab(cielab.rgb_to_lab(rgb1), cielab.rgb_to_lab(rgb2))


def hue_gap(lab1, lab2):
    """(| |h1' - h2'| - 180 | in degrees, smaller of the two C') - how close a pair is to the 180-degree discontinuity."""
    L1, a1, b1 = lab1
    L2, a2, b2 = lab2
    Cb = (math.hypot(a1, b1) + math.hypot(a2, b2)) / 2.0
    G = 0.5 * (1.0 - math.sqrt(Cb ** 7 / (Cb ** 7 + 25.0 ** 7)))
    ap1, ap2 = (1.0 + G) * a1, (1.0 + G) * a2
    h1 = math.degrees(math.atan2(b1, ap1)) % 360.0
    h2 = math.degrees(math.atan2(b2, ap2)) % 360.0
    return abs(abs(h1 - h2) - 180.0), min(math.hypot(ap1, b1), math.hypot(ap2, b2))


def at_discontinuity(lab1, lab2, lab_tol=0.05):
    """True when a change of the Lab coordinates within lab_tol (the agreement the property itself asks of Lab) can move the
    pair across the 180-degree discontinuity: then both branch values are CIE-conformant answers."""
    gap, cmin = hue_gap(lab1, lab2)
    if cmin <= 0:
        return False
    reach = 2.0 * math.degrees(math.atan2(lab_tol * math.sqrt(2.0), cmin))
    return gap <= reach
