"""WCAG 2.x relative luminance / contrast ratio / conformance labels - reference model.

Written from the WCAG 2.1 definitions of "relative luminance" and "contrast ratio", not from
the library.  The 256-entry linearisation table is computed with `decimal` at 50 digits and
rounded to a float once; sums are then done in floats (error ~1e-16, the checks allow 1e-12).
"""
from decimal import Decimal, getcontext
from fractions import Fraction

getcontext().prec = 50


def _lin(c8, knee):
    v = Decimal(c8) / Decimal(255)
    if v <= knee:
        return v / Decimal("12.92")
    return ((v + Decimal("0.055")) / Decimal("1.055")) ** Decimal("2.4")


# WCAG 2.x prints 0.03928, sRGB (and WCAG's own erratum) 0.04045.  Both give the same table on
# 8-bit input because 10/255 < 0.03928 < 0.04045 < 11/255; asserted here once.
_T_WCAG = [_lin(c, Decimal("0.03928")) for c in range(256)]
_T_SRGB = [_lin(c, Decimal("0.04045")) for c in range(256)]
assert _T_WCAG == _T_SRGB
LIN_DEC = _T_WCAG
LIN = [float(x) for x in LIN_DEC]

WR, WG, WB = 0.2126, 0.7152, 0.0722
_DR, _DG, _DB = Decimal("0.2126"), Decimal("0.7152"), Decimal("0.0722")


def luminance(rgb):
    r, g, b = rgb
    return WR * LIN[r] + WG * LIN[g] + WB * LIN[b]


def luminance_dec(rgb):
    r, g, b = rgb
    return _DR * LIN_DEC[r] + _DG * LIN_DEC[g] + _DB * LIN_DEC[b]


def ratio(c1, c2):
    l1, l2 = luminance(c1), luminance(c2)
    if l1 < l2:
        l1, l2 = l2, l1
    return (l1 + 0.05) / (l2 + 0.05)


def ratio_dec(c1, c2):
    l1, l2 = luminance_dec(c1), luminance_dec(c2)
    if l1 < l2:
        l1, l2 = l2, l1
    return (l1 + Decimal("0.05")) / (l2 + Decimal("0.05"))


# The required minimum for make_readable, from the property text (C01), not from the code.
def minimum(large, very_readable):
    if very_readable:
        return 4.5 if large else 7.0
    return 3.0 if large else 4.5


DEADBAND = 1e-9


def meets(r, threshold):
    """True / False / None (None: within the dead band, not judged)."""
    if abs(r - threshold) < DEADBAND:
        return None
    return r > threshold


def level(r, large):
    """'AAA' / 'AA' / 'FAIL' for a ratio, thresholds inclusive (C05)."""
    hi, lo = (4.5, 3.0) if large else (7.0, 4.5)
    if r >= hi:
        return "AAA"
    if r >= lo:
        return "AA"
    return "FAIL"


LABEL = {"AAA": "Very Readable", "AA": "Readable", "FAIL": "Not Readable"}


def level_is_decidable(r, large):
    hi, lo = (4.5, 3.0) if large else (7.0, 4.5)
    return abs(r - hi) >= DEADBAND and abs(r - lo) >= DEADBAND
