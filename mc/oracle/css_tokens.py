"""CSS Syntax Module Level 3 tokenizer + a small structurer, written from the spec (section 4 and 5).

Used to compare stylesheets *by token value* (escapes decoded, strings/urls by value, numbers by value,
legacy unicode-range by range) and to locate rules / declarations in the tool's output without trusting
the parser the tool itself uses.

Token = (type, value[, extra]).  Types: ws comment ident function at hash string badstring url badurl delim
number percentage dimension urange cdo cdc : ; , [ ] ( ) { }
"""
import re

_HEX = "0123456789abcdefABCDEF"


def _is_name_start(c):
    return c.isalpha() or c == "_" or ord(c) >= 0x80 if c else False


def _is_name(c):
    return bool(c) and (_is_name_start(c) or c.isdigit() or c == "-")


def _preprocess(s):
    return s.replace("\r\n", "\n").replace("\r", "\n").replace("\f", "\n").replace("\x00", "�")


class _T:
    def __init__(self, s):
        self.s = _preprocess(s)
        self.i = 0
        self.n = len(self.s)

    def peek(self, k=0):
        j = self.i + k
        return self.s[j] if j < self.n else ""

    def valid_escape(self, k=0):
        return self.peek(k) == "\\" and self.peek(k + 1) != "\n"

    def starts_ident(self, k=0):
        c = self.peek(k)
        if c == "-":
            c2 = self.peek(k + 1)
            return _is_name_start(c2) or c2 == "-" or self.valid_escape(k + 1)
        if _is_name_start(c):
            return True
        if c == "\\":
            return self.valid_escape(k)
        return False

    def starts_number(self, k=0):
        c = self.peek(k)
        if c in "+-" and c:
            c2 = self.peek(k + 1)
            if c2.isdigit():
                return True
            return c2 == "." and self.peek(k + 2).isdigit()
        if c == ".":
            return self.peek(k + 1).isdigit()
        return c.isdigit() if c else False

    def consume_escape(self):
        # after the backslash
        c = self.peek()
        if c == "":
            return "�"
        if c in _HEX:
            j = 0
            h = ""
            while j < 6 and self.peek() in _HEX and self.peek():
                h += self.peek()
                self.i += 1
                j += 1
            if self.peek() in (" ", "\t", "\n") and self.peek():
                self.i += 1
            v = int(h, 16)
            if v == 0 or v > 0x10FFFF or 0xD800 <= v <= 0xDFFF:
                return "�"
            return chr(v)
        self.i += 1
        return c

    def consume_name(self):
        out = []
        while True:
            c = self.peek()
            if _is_name(c):
                out.append(c)
                self.i += 1
            elif self.valid_escape():
                self.i += 1
                out.append(self.consume_escape())
            else:
                return "".join(out)

    def consume_number(self):
        st = self.i
        if self.peek() in "+-" and self.peek():
            self.i += 1
        while self.peek().isdigit():
            self.i += 1
        is_int = True
        if self.peek() == "." and self.peek(1).isdigit():
            is_int = False
            self.i += 2
            while self.peek().isdigit():
                self.i += 1
        if self.peek() in "eE" and self.peek():
            k = 1
            if self.peek(1) in "+-" and self.peek(1):
                k = 2
            if self.peek(k).isdigit():
                is_int = False
                self.i += k
                while self.peek().isdigit():
                    self.i += 1
        rep = self.s[st:self.i]
        return (int(rep) if is_int else float(rep)), is_int

    def consume_string(self, q):
        out = []
        while True:
            c = self.peek()
            if c == "":
                return ("string", "".join(out))
            if c == q:
                self.i += 1
                return ("string", "".join(out))
            if c == "\n":
                return ("badstring", "".join(out))
            if c == "\\":
                nx = self.peek(1)
                if nx == "":
                    self.i += 1
                    continue
                if nx == "\n":
                    self.i += 2
                    continue
                self.i += 1
                out.append(self.consume_escape())
                continue
            out.append(c)
            self.i += 1

    def consume_url(self):
        while self.peek() in (" ", "\t", "\n") and self.peek():
            self.i += 1
        out = []
        while True:
            c = self.peek()
            if c == "":
                return ("url", "".join(out))
            if c == ")":
                self.i += 1
                return ("url", "".join(out))
            if c in (" ", "\t", "\n"):
                while self.peek() in (" ", "\t", "\n") and self.peek():
                    self.i += 1
                if self.peek() in (")", ""):
                    if self.peek():
                        self.i += 1
                    return ("url", "".join(out))
                return self.bad_url()
            if c in "\"'(" or (ord(c) < 0x20 and c not in "\t\n") or ord(c) == 0x7F:
                return self.bad_url()
            if c == "\\":
                if self.valid_escape():
                    self.i += 1
                    out.append(self.consume_escape())
                    continue
                return self.bad_url()
            out.append(c)
            self.i += 1

    def bad_url(self):
        while True:
            c = self.peek()
            if c == "" or c == ")":
                if c:
                    self.i += 1
                return ("badurl", "")
            if self.valid_escape():
                self.i += 1
                self.consume_escape()
            else:
                self.i += 1

    def consume_ident_like(self):
        name = self.consume_name()
        if name.lower() == "url" and self.peek() == "(":
            self.i += 1
            k = 0
            while self.peek(k) in (" ", "\t", "\n") and self.peek(k):
                k += 1
            if self.peek(k) in ("'", '"') and self.peek(k):
                return ("function", name)
            return self.consume_url()
        if self.peek() == "(":
            self.i += 1
            return ("function", name)
        return ("ident", name)

    _UR = re.compile(r"[uU]\+([0-9a-fA-F?]{1,6})(?:-([0-9a-fA-F]{1,6}))?")

    def try_unicode_range(self):
        if self.peek() in "uU" and self.peek() and self.peek(1) == "+" and (self.peek(2) in _HEX + "?" and self.peek(2)):
            m = self._UR.match(self.s, self.i)
            if m:
                first = m.group(1)
                if "?" in first:
                    if m.group(2) is not None or not re.fullmatch(r"[0-9a-fA-F]*\?+", first):
                        # "1?-2" style: only the first part is the range
                        first_only = re.match(r"[0-9a-fA-F]*\?*", first).group(0)
                        self.i += 2 + len(first_only)
                        return ("urange", (int(first_only.replace("?", "0"), 16), int(first_only.replace("?", "F"), 16)))
                    self.i = m.start(1) + len(first)
                    return ("urange", (int(first.replace("?", "0"), 16), int(first.replace("?", "F"), 16)))
                self.i = m.end()
                a = int(first, 16)
                b = int(m.group(2), 16) if m.group(2) is not None else a
                return ("urange", (a, b))
        return None

    def next(self):
        c = self.peek()
        if c == "":
            return None
        if c == "/" and self.peek(1) == "*":
            j = self.s.find("*/", self.i + 2)
            if j < 0:
                txt = self.s[self.i + 2:]
                self.i = self.n
            else:
                txt = self.s[self.i + 2:j]
                self.i = j + 2
            return ("comment", txt)
        if c in " \t\n":
            while self.peek() in (" ", "\t", "\n") and self.peek():
                self.i += 1
            return ("ws", " ")
        if c in "\"'":
            self.i += 1
            return self.consume_string(c)
        if c == "#":
            if _is_name(self.peek(1)) or self.valid_escape(1):
                self.i += 1
                return ("hash", self.consume_name())
            self.i += 1
            return ("delim", "#")
        if c in "()[]{},:;":
            self.i += 1
            return (c, c)
        if c in "+.":
            if self.starts_number():
                return self.numeric()
            self.i += 1
            return ("delim", c)
        if c == "-":
            if self.starts_number():
                return self.numeric()
            if self.peek(1) == "-" and self.peek(2) == ">":
                self.i += 3
                return ("cdc", "-->")
            if self.starts_ident():
                return self.consume_ident_like()
            self.i += 1
            return ("delim", "-")
        if c == "<":
            if self.s.startswith("!--", self.i + 1):
                self.i += 4
                return ("cdo", "<!--")
            self.i += 1
            return ("delim", "<")
        if c == "@":
            if self.starts_ident(1):
                self.i += 1
                return ("at", self.consume_name())
            self.i += 1
            return ("delim", "@")
        if c == "\\":
            if self.valid_escape():
                return self.consume_ident_like()
            self.i += 1
            return ("delim", "\\")
        if c.isdigit():
            return self.numeric()
        if c in "uU":
            ur = self.try_unicode_range()
            if ur:
                return ur
        if _is_name_start(c):
            return self.consume_ident_like()
        self.i += 1
        return ("delim", c)

    def numeric(self):
        v, is_int = self.consume_number()
        if self.starts_ident():
            return ("dimension", (v, self.consume_name()))
        if self.peek() == "%":
            self.i += 1
            return ("percentage", v)
        return ("number", v)


def tokenize(s):
    t = _T(s)
    out = []
    while True:
        tok = t.next()
        if tok is None:
            return out
        out.append(tok)


# ------------------------------------------------------------------------------------------
# Structure
# ------------------------------------------------------------------------------------------
_CLOSE = {"{": "}", "(": ")", "[": "]", "function": ")"}


def _trim(toks):
    a, b = 0, len(toks)
    while a < b and toks[a][0] == "ws":
        a += 1
    while b > a and toks[b - 1][0] == "ws":
        b -= 1
    return toks[a:b]


def norm_tokens(toks, drop_comments=False):
    """Collapse whitespace runs, trim the ends; comments kept (they are content the tool must carry through)."""
    out = []
    for t in toks:
        if t[0] == "comment" and (drop_comments or t[1] == ""):
            continue  # an empty comment only separates tokens (tinycss2's serialiser inserts them, e.g. 2n/**/+1)
        if t[0] == "ws" and out and out[-1][0] == "ws":
            continue
        out.append(t)
    return tuple(_trim(out))


def _consume_block(toks, i):
    """toks[i] is an opening token; returns (content tokens, index after the matching close)."""
    close = _CLOSE[toks[i][0]]
    depth = []
    j = i + 1
    start = j
    while j < len(toks):
        ty = toks[j][0]
        if ty in _CLOSE:
            depth.append(_CLOSE[ty])
        elif ty in ("}", ")", "]"):
            if depth:
                if depth[-1] == ty:
                    depth.pop()
            elif ty == close:
                return toks[start:j], j + 1
        j += 1
    return toks[start:], len(toks)


def parse_rules(toks, top_level=True):
    """-> list of items: ('comment', text) | ('at', name, prelude, block|None) | ('rule', prelude, block) | ('cdo',)/('cdc',)"""
    out = []
    i, n = 0, len(toks)
    while i < n:
        ty = toks[i][0]
        if ty == "ws":
            i += 1
            continue
        if ty == "comment":
            out.append(("comment", toks[i][1]))
            i += 1
            continue
        if ty in ("cdo", "cdc") and top_level:
            out.append((ty,))
            i += 1
            continue
        if ty == "at":
            name = toks[i][1]
            j = i + 1
            prelude = []
            block = None
            while j < n:
                t = toks[j][0]
                if t == ";":
                    j += 1
                    break
                if t == "{":
                    block, j = _consume_block(toks, j)
                    break
                if t in _CLOSE:
                    inner, j2 = _consume_block(toks, j)
                    prelude += toks[j:j2]
                    j = j2
                    continue
                prelude.append(toks[j])
                j += 1
            out.append(("at", name, list(prelude), block))
            i = j
            continue
        # qualified rule
        j = i
        prelude = []
        block = None
        while j < n:
            t = toks[j][0]
            if t == "{":
                block, j = _consume_block(toks, j)
                break
            if t in _CLOSE:
                inner, j2 = _consume_block(toks, j)
                prelude += toks[j:j2]
                j = j2
                continue
            prelude.append(toks[j])
            j += 1
        if block is None:
            out.append(("junk", list(prelude)))
        else:
            out.append(("rule", list(prelude), block))
        i = j
    return out


def parse_declarations(toks):
    """-> list of ('decl', name, value tokens (trimmed, without !important), important) | ('comment', t) | ('junk', tokens)
    | ('at', ...)"""
    out = []
    i, n = 0, len(toks)
    while i < n:
        ty = toks[i][0]
        if ty in ("ws", ";"):
            i += 1
            continue
        if ty == "comment":
            out.append(("comment", toks[i][1]))
            i += 1
            continue
        # collect up to the next top-level ';'
        j = i
        part = []
        while j < n and toks[j][0] != ";":
            if toks[j][0] in _CLOSE:
                inner, j2 = _consume_block(toks, j)
                part += toks[j:j2]
                j = j2
                continue
            part.append(toks[j])
            j += 1
        i = j
        if part and part[0][0] == "at":
            out.append(("junk", list(part)))
            continue
        if part and part[0][0] == "ident":
            k = 1
            while k < len(part) and part[k][0] in ("ws", "comment"):
                k += 1
            if k < len(part) and part[k][0] == ":":
                value = list(part[k + 1:])
                important = False
                v = [t for t in value]
                # strip trailing ws/comments, then "!" ws* "important"
                # (css-syntax: "!" followed by "important", with only whitespace - and comments, which are not tokens at
                # that level - between and after them; such comments are kept at the end of the value so that they stay comparable)
                m = len(v)
                while m > 0 and v[m - 1][0] in ("ws", "comment"):
                    m -= 1
                if m >= 2 and v[m - 1][0] == "ident" and v[m - 1][1].lower() == "important":
                    q = m - 2
                    while q >= 0 and v[q][0] in ("ws", "comment"):
                        q -= 1
                    if q >= 0 and v[q] == ("delim", "!"):
                        important = True
                        v = v[:q] + [t for t in v[q:] if t[0] == "comment"]
                out.append(("decl", part[0][1], list(_trim(v)), important))
                continue
        out.append(("junk", list(part)))
    return out


RULE_LIST_AT = {"media", "supports", "document", "layer", "container", "scope"}
DECL_AT = {"font-face", "page", "viewport", "counter-style", "property"}


def tree(css_text):
    """Normalised tree of a stylesheet, for structural comparison."""
    return _tree_rules(parse_rules(tokenize(css_text), True))


def _tree_decls(block):
    out = []
    for d in parse_declarations(block):
        if d[0] == "decl":
            out.append(("decl", d[1], norm_tokens(d[2]), d[3]))
        elif d[0] == "comment":
            out.append(d)
        else:
            out.append(("junk", norm_tokens(d[1])))
    return tuple(out)


def _tree_rules(items):
    out = []
    for it in items:
        if it[0] in ("comment", "cdo", "cdc"):
            out.append(it)
        elif it[0] == "junk":
            out.append(("junk", norm_tokens(it[1])))
        elif it[0] == "rule":
            out.append(("rule", norm_tokens(it[1]), _tree_decls(it[2])))
        else:
            _, name, prelude, block = it
            low = name.lower()
            if block is None:
                body = None
            elif low in RULE_LIST_AT or low.endswith("keyframes"):
                body = ("rules", _tree_rules(parse_rules(block, False)))
            elif low in DECL_AT:
                body = ("decls", _tree_decls(block))
            else:
                body = ("tokens", norm_tokens(block))
            out.append(("at", name, norm_tokens(prelude), body))
    return tuple(out)


def serialize_value(toks):
    """Readable (not round-trip exact) text of a token list - for messages and for re-reading colour values."""
    out = []
    for t in toks:
        ty = t[0]
        if ty == "ws":
            out.append(" ")
        elif ty == "comment":
            out.append("/*%s*/" % t[1])
        elif ty == "ident":
            out.append(t[1])
        elif ty == "function":
            out.append(t[1] + "(")
        elif ty == "at":
            out.append("@" + t[1])
        elif ty == "hash":
            out.append("#" + t[1])
        elif ty == "string":
            out.append('"%s"' % t[1].replace("\\", "\\\\").replace('"', '\\"'))
        elif ty == "url":
            out.append("url(%s)" % t[1])
        elif ty == "number":
            out.append(repr(t[1]) if isinstance(t[1], float) else str(t[1]))
        elif ty == "percentage":
            out.append((repr(t[1]) if isinstance(t[1], float) else str(t[1])) + "%")
        elif ty == "dimension":
            out.append((repr(t[1][0]) if isinstance(t[1][0], float) else str(t[1][0])) + t[1][1])
        elif ty == "urange":
            out.append("U+%X-%X" % t[1])
        else:
            out.append(str(t[1]))
    return "".join(out)


def find_rules(css_text):
    """[(selector text (normalised), declarations list as parse_declarations gives, path of enclosing at-rules)] for every
    qualified rule, including those nested in rule-list at-rules."""
    out = []

    def walk(items, path):
        for it in items:
            if it[0] == "rule":
                key = norm_tokens(it[1], drop_comments=True)
                out.append((serialize_value(key), parse_declarations(it[2]), tuple(path), key))
            elif it[0] == "at" and it[3] is not None and (it[1].lower() in RULE_LIST_AT):
                walk(parse_rules(it[3], False), path + [it[1].lower()])

    walk(parse_rules(tokenize(css_text), True), [])
    return out
