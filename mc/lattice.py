"""Colour alphabets and configurations shared by the property modules (DESIGN.md section 3)."""
import json
import os

_HERE = os.path.dirname(os.path.abspath(__file__))
NAMED = {k: tuple(v) for k, v in json.load(open(os.path.join(_HERE, "oracle", "named_colors_ref.json"))).items()}
NAMED_LIST = sorted(NAMED.items())

GREY = [(i, i, i) for i in range(256)]
BLACK, WHITE = (0, 0, 0), (255, 255, 255)

MODES = (0, 1, 2)
# (mode, large_text, very_readable)
CFG = [(m, lg, vr) for m in MODES for lg in (False, True) for vr in (False, True)]


def cube_levels(k, offset=0):
    """k evenly spaced 8-bit levels including 0 and 255 (offset rotates the interior levels)."""
    if k == 1:
        return [0]
    lv = sorted({min(255, max(0, round(i * 255 / (k - 1)))) for i in range(k)})
    if offset:
        lv = sorted({0, 255} | {min(254, max(1, v + offset)) for v in lv if 0 < v < 255})
    return lv


def cube(k, offset=0):
    lv = cube_levels(k, offset)
    return [(r, g, b) for r in lv for g in lv for b in lv]


def hex6(rgb):
    return "#%02x%02x%02x" % tuple(rgb)
