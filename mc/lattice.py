"""Colour alphabets and configurations shared by the property modules (DESIGN.md section 3)."""
import json
import os

_HERE = os.path.dirname(os.path.abspath(__file__))
NAMED = {k: tuple(v) for k, v in json.load(open(os.path.join(_HERE, "oracle", "named_colors_ref.json"))).items()}
NAMED_LIST = sorted(NAMED.items())

GREY = [(i, i, i) for i in range(256)]
BLACK, WHITE = (0, 0, 0), (255, 255, 255)

MODES = (0, 1, 2)
# (mode, large_text, very_readable)
CFG = [(m, lg, vr) for m in MODES for lg in (False, True) for vr in (False, True)]


def cube_levels(k, offset=0):
    """k evenly spaced 8-bit levels including 0 and 255 (offset rotates the interior levels)."""
    if k == 1:
        return [0]
    lv = sorted({min(255, max(0, round(i * 255 / (k - 1)))) for i in range(k)})
    if offset:
        lv = sorted({0, 255} | {min(254, max(1, v + offset)) for v in lv if 0 < v < 255})
    return lv


def cube(k, offset=0):
    lv = cube_levels(k, offset)
    return [(r, g, b) for r in lv for g in lv for b in lv]


def hex6(rgb):
    return "#%02x%02x%02x" % tuple(rgb)


# ---------------------------------------------------------------------------------------------
# Pair lattice for the optimiser properties (C01-C04, C16, C06 mapping, C17): backgrounds and
# threshold-adjacent texts derived deterministically from the oracles (never from the library).
# ---------------------------------------------------------------------------------------------
import math  # noqa: E402

from mc.oracle import oklab as _ok  # noqa: E402
from mc.oracle import wcag as _wc  # noqa: E402

THRESHOLDS = (3.0, 4.5, 7.0)


def _hue_tint(h_deg, L, C):
    return _ok.oklch_to_rgb((L, C, h_deg))


def backgrounds(tier, phase):
    """White, black, greys on both sides of OKLCH L = 0.5 (8-bit grey 99/100 straddles it), light / mid / dark
    tints of rotating hues, saturated primaries."""
    rot = 22.5 * phase
    g = phase
    bgs = [WHITE, BLACK, (99 - g, 99 - g, 99 - g), (100 + g, 100 + g, 100 + g), (238 - g, 238 - g, 238 - g), (30 + g, 30 + g, 30 + g)]
    hues = [(30 + rot) % 360, (150 + rot) % 360, (270 + rot) % 360]
    for h in hues:
        bgs.append(_hue_tint(h, 0.92, 0.05))   # light tint
        bgs.append(_hue_tint(h, 0.30, 0.08))   # dark tint
    bgs.append((160 + g, 160 + g, 160 + g))      # mid-light: relative luminance ~0.35, where black still beats white by far
    bgs.append((142 - 2 * g, 142 - 2 * g, 142 - 2 * g))  # white reaches 3.0 against it but not 4.5; black reaches both
    if tier == "quick":
        bgs += [(115, 83, 215)]                # mid-tone, chromatic, L > 0.5: exercises the direction rule
        return _dedupe(bgs[:6] + bgs[6:9] + bgs[11:])
    for h in hues + [(90 + rot) % 360, (210 + rot) % 360, (330 + rot) % 360]:
        bgs.append(_hue_tint(h, 0.55, 0.12))   # mid tints just above L = 0.5
        bgs.append(_hue_tint(h, 0.47, 0.10))   # and just below
    bgs += [(255, 0, 0), (0, 128, 0), (0, 0, 255), (255, 255, 0), (0, 255, 255), (255, 0, 255), (115, 83, 215),
            (90, 90, 90), (110, 110, 110), (128, 128, 128), (200, 200, 200), (188, 188, 188), (153, 164, 156), (193, 74, 215)]
    return _dedupe(bgs)


def _dedupe(xs):
    seen, out = set(), []
    for x in xs:
        x = tuple(x)
        if x not in seen:
            seen.add(x)
            out.append(x)
    return out


def lightness_line(C, H, n=1024):
    """Distinct 8-bit colours on the OKLCH lightness line (C, H), ordered by L, via the oracle conversion."""
    out, last = [], None
    for i in range(n + 1):
        c = _ok.oklch_to_rgb((i / n, C, H))
        if c != last:
            out.append(c)
            last = c
    return out


def texts_for(bg, tier, phase):
    """TEXT(bg): for each hue/chroma seed and each threshold and each side of the background, colours of the
    seed's lightness line in [0.80T, T) (subsampled), the colours adjacent to T on both sides, and far-below
    colours (ratio 1.0 = bg, ~1.2, ~2).  Returns an ordered list of distinct colours with a tag."""
    rot = 22.5 * phase
    if tier == "quick":
        seeds = [(0.0, 0.0)] + [(0.10, (h + rot) % 360) for h in (25, 145, 265)] + [(0.19, (85 + rot) % 360)]
        nband, nadj = 2, 1
    else:
        seeds = [(0.0, 0.0)] + [(c, (h + rot) % 360) for h in (25, 70, 115, 160, 205, 250, 295, 340) for c in (0.06, 0.16)]
        seeds += [(0.09, (h + rot) % 360) for h in (35, 140, 265, 325)]
        nband, nadj = 6, 2
    lb = _wc.luminance(bg)
    out, seen = [], set()

    def add(c, tag):
        if c not in seen:
            seen.add(c)
            out.append((c, tag))

    add(tuple(bg), "equal_to_bg")
    for C, H in seeds:
        line = lightness_line(C, H, 512 if tier == "quick" else 1024)
        rated = [(c, _wc.ratio(c, bg), _wc.luminance(c) >= lb) for c in line]
        for lighter in (False, True):
            side = [(c, r) for c, r, lt in rated if lt == lighter]
            if not side:
                continue
            # order by increasing contrast
            side.sort(key=lambda cr: cr[1])
            for T in THRESHOLDS:
                below = [cr for cr in side if 0.80 * T <= cr[1] < T]
                above = [cr for cr in side if cr[1] >= T]
                if below:
                    step = max(1, len(below) // nband)
                    for c, _ in below[::step][:nband]:
                        add(c, "band_%g" % T)
                    for c, _ in below[-nadj:]:
                        add(c, "just_below_%g" % T)
                for c, _ in above[:nadj]:
                    add(c, "just_above_%g" % T)
                # a few per cent below the threshold: the smallest fix needs more than the first tolerance of the schedule
                # but is still barely perceptible
                medium = [cr for cr in side if 0.935 * T <= cr[1] < 0.975 * T]
                for c, _ in medium[:: max(1, len(medium) // nband)][:nband]:
                    add(c, "medium_step_%g" % T)
            for target in (1.2, 2.0):
                cand = [cr for cr in side if cr[1] >= target]
                if cand:
                    add(cand[0][0], "far_below")
            # all but on the background: whichever way the text is walked, the first steps barely change the ratio, and
            # crossing the background is a real alternative to moving away from it
            for target in (1.02, 1.06):
                cand = [cr for cr in side if cr[1] >= target]
                if cand and cand[0][1] < 1.15:
                    add(cand[0][0], "near_bg")
    return out


# Pairs that reach branches of the mode logic the derived lattice rarely hits; found by the thorough tier's own exploration
# (not by reading the code) and pinned here so that the quick tier exercises them on every run:
#  - relaxed mode: recursive pass fails, extended recursion (option A) fails, single relaxed shot (option B) succeeds
# (they did so on the tree with fix f8a9820; since its refinement c4d12dd they fail in relaxed mode, as on the original tree - kept as
#  ordinary lattice members)
BRANCH_WITNESS = [((177, 235, 241), (141, 109, 0)), ((177, 235, 240), (141, 109, 0))]
#  - text all but on a mid-tone background, on the side of it the usual direction rule walks away from: moving away reaches
#    the ordinary large-text minimum only at the very end of the line, crossing the background reaches it sooner (found by
#    the near-background shell below; a direction rule that looks at the requested minimum answers them differently for
#    an ordinary and a very_readable request)
DIRECTION_WITNESS = [((179, 138, 46), (142, 142, 142)), ((188, 88, 211), (193, 74, 215)), ((196, 88, 184), (193, 74, 215)),
                     ((108, 114, 108), (108, 108, 108)), ((144, 144, 158), (144, 144, 144)), ((180, 120, 120), (132, 132, 132)),
                     ((150, 40, 255), (108, 108, 108)), ((104, 147, 227), (146, 146, 146)), ((237, 71, 209), (141, 141, 141))]
SHELL_BGS = [(142, 142, 142), (128, 128, 128), (115, 83, 215), (193, 74, 215)]


def near_background_shell(phase):
    """Every colour of a step-12 cube (offset rotating with the phase) whose ratio against a mid-tone background is at most
    1.08: the whole neighbourhood of the background, all hues and both sides, not only the seeded lightness lines."""
    off = (4, 10, 1, 7)[phase % 4]
    lv = list(range(off, 256, 12))
    out = []
    for bg in SHELL_BGS:
        for r in lv:
            for g in lv:
                for b in lv:
                    if _wc.ratio((r, g, b), bg) <= 1.08:
                        out.append(((r, g, b), bg, "near_bg_shell"))
    return out


DARK_BGS = [(115, 83, 215), (117, 123, 206), (160, 160, 160), (142, 142, 142)]


def dark_tinted_band(tier, phase):
    """Dark, tinted text a few per cent below each threshold of a mid-tone background: colours with 8-bit channels of 1..15,
    where the inverse conversion works on the linear toe of the sRGB curve.  Every distinct colour of the seed lines in
    [0.96 T, T) on the darker side (every second one in the quick tier)."""
    rot = 22.5 * phase
    out, seen = [], set()
    for bg in DARK_BGS:
        lb = _wc.luminance(bg)
        for C in (0.05, 0.07, 0.09):
            for H in (35, 100, 250, 325):
                line = lightness_line(C, (H + rot) % 360, 1024)
                for T in THRESHOLDS:
                    side = [c for c in line if _wc.luminance(c) < lb and 0.96 * T <= _wc.ratio(c, bg) < T]
                    for c in side[:: 2 if tier == "quick" else 1]:
                        if (c, bg) not in seen:
                            seen.add((c, bg))
                            out.append((c, bg, "dark_tinted"))
    return out


def pair_lattice(tier, phase):
    """[(text, bg, tag)] over all backgrounds of the tier."""
    out = []
    for bg in backgrounds(tier, phase):
        for t, tag in texts_for(bg, tier, phase):
            out.append((t, bg, tag))
    for t, bg in BRANCH_WITNESS:
        out.append((t, bg, "branch_witness"))
    for t, bg in DIRECTION_WITNESS:
        out.append((t, bg, "direction_witness"))
    return out


# ---------------------------------------------------------------------------------------------
# SPELL(rgb): every accepted spelling that denotes rgb exactly, with the documented output format.
# ---------------------------------------------------------------------------------------------
_REV_NAMED = {}
for _k, _v in NAMED_LIST:
    _REV_NAMED.setdefault(_v, _k)


def _half_blend_fg(rgb, bg, num, den):
    """fg such that alpha=num/den blend over bg is exactly rgb (integers), or None."""
    fg = []
    for t, b in zip(rgb, bg):
        # t = a*f + (1-a)*b  ->  f = (t*den - (den-num)*b) / num
        x = t * den - (den - num) * b
        if x % num:
            return None
        f = x // num
        if not 0 <= f <= 255:
            return None
        fg.append(f)
    return tuple(fg)


def spellings(rgb, bg):
    """[(label, value, documented output format)] - all denote exactly `rgb` when composited over `bg`."""
    r, g, b = rgb
    h = "%02x%02x%02x" % rgb
    out = [("hex6", "#" + h, "hex"), ("HEX6", "#" + h.upper(), "hex"), ("barehex6", h, "hex")]
    if h[0] == h[1] and h[2] == h[3] and h[4] == h[5]:
        out += [("hex3", "#" + h[0] + h[2] + h[4], "hex"), ("barehex3", h[0] + h[2] + h[4], "hex")]
    out += [("rgb()", "rgb(%d, %d, %d)" % rgb, "rgb"), ("RGB() spaced", " RGB( %d ,%d,\t%d )" % rgb, "rgb")]
    if all(c % 51 == 0 for c in rgb):
        out.append(("rgb(%)", "rgb(%d%%, %d%%, %d%%)" % tuple(c * 100 // 255 for c in rgb), "rgb"))
    if rgb in _REV_NAMED:
        out += [("keyword", _REV_NAMED[rgb], "hex"), ("Keyword", _REV_NAMED[rgb].title(), "hex")]
    out += [("tuple", (r, g, b), "rgb_tuple"), ("list", [r, g, b], "rgb_tuple")]
    out += [("rgba() a=1", "rgba(%d, %d, %d, 1)" % rgb, "hex"), ("RGBA tuple a=1", (r, g, b, 1.0), "hex")]
    for num, den, txt in ((1, 2, "0.5"), (1, 4, "0.25"), (3, 4, "0.75")):
        fg = _half_blend_fg(rgb, bg, num, den)
        if fg is not None and fg != rgb:
            out += [("rgba() a=%s" % txt, "rgba(%d, %d, %d, %s)" % (fg + (txt,)), "hex"),
                    ("RGBA tuple a=%s" % txt, fg + (num / den,), "hex"),
                    ("RGBA list a=%s" % txt, list(fg) + [num / den], "hex")]
            break
    return out


def hsl_seed(rgb):
    """An hsl() string with integer components near rgb, and the colour it denotes exactly (None on ties)."""
    from mc.oracle import css_color
    import colorsys

    hh, ll, ss = colorsys.rgb_to_hls(*(c / 255.0 for c in rgb))
    s = "hsl(%d, %d%%, %d%%)" % (round(hh * 360) % 360, round(ss * 100), round(ll * 100))
    t = css_color.read_unique(s)
    if t is None:
        return None
    h_, s_, l_ = round(hh * 360) % 360, round(ss * 100), round(ll * 100)
    return t, [("hsl()", s, "hsl"), ("HSL() spaced", "HSL( %d ,%d%% , %d%% )" % (h_, s_, l_), "hsl"),
               ("hsla() a=1", "hsla(%d, %d%%, %d%%, 1)" % (h_, s_, l_), "hex")]


def bg_spellings(bg):
    out = [("tuple", tuple(bg)), ("hex6", hex6(bg)), ("rgb()", "rgb(%d, %d, %d)" % tuple(bg)), ("rgba() a=1", "rgba(%d, %d, %d, 1)" % tuple(bg))]
    if tuple(bg) in _REV_NAMED:
        out.append(("keyword", _REV_NAMED[tuple(bg)]))
    return out
