"""In-process driver for the cm-colors command (real cm_colors.cli.main.main, fresh temp cwd per run)."""
import contextlib
import io
import os
import re
import shutil
import tempfile

from mc.oracle import html_tree


def run_cli(args, cwd):
    """-> dict(stdout, stderr, exit_code, exc).  exit_code 0 on normal return."""
    from cm_colors.cli.main import main
    import click

    out, err = io.StringIO(), io.StringIO()
    old = os.getcwd()
    code, exc = 0, None
    try:
        os.chdir(cwd)
        with contextlib.redirect_stdout(out), contextlib.redirect_stderr(err):
            try:
                main.main(list(args), standalone_mode=False)
            except click.exceptions.Exit as e:
                code = e.exit_code
            except click.ClickException as e:
                code, exc = e.exit_code, "%s: %s" % (type(e).__name__, e.format_message())
            except SystemExit as e:
                code = e.code if isinstance(e.code, int) else 1
            except BaseException as e:  # noqa
                code, exc = 1, "%s: %s" % (type(e).__name__, e)
    finally:
        os.chdir(old)
    return dict(stdout=out.getvalue(), stderr=err.getvalue(), exit_code=code, exc=exc)


_COUNT = {
    "accessible": re.compile(r"(\d+) color pairs already readable"),
    "tuned": re.compile(r"(\d+) color pairs adjusted"),
    "failed": re.compile(r"(\d+) color pairs need your attention"),
}
_FAIL_LINE = re.compile(r"^  (.+?) -> (.*)$")


def parse_stdout(text):
    """Summary counts and the 'Could not tune' list [(file, selector)]."""
    counts = {k: 0 for k in _COUNT}
    for k, rx in _COUNT.items():
        m = rx.search(text)
        if m:
            counts[k] = int(m.group(1))
    listed = []
    in_list = False
    for line in text.splitlines():
        if line.startswith("Could not tune"):
            in_list = True
            continue
        if in_list:
            m = _FAIL_LINE.match(line)
            if m and not line.startswith("    "):
                listed.append((m.group(1), m.group(2)))
    nproc = None
    m = re.search(r"Processing (\d+) files", text)
    if m:
        nproc = int(m.group(1))
    return counts, listed, nproc


_STYLE = re.compile(r"background-color:\s*(.*?);\s*color:\s*(.*?);\s*$", re.S)


def parse_report(path):
    """Cards of cm_colors_report.html: [dict(selector, file, bg, before, after)] or None when absent."""
    if not os.path.exists(path):
        return None
    evs = html_tree.events(open(path, encoding="utf-8").read())
    cards = []
    cur = None
    stack = []
    for e in evs:
        if e[0] == "start":
            d = dict(e[2])
            cls = d.get("class") or ""
            if e[1] not in html_tree.VOID:
                stack.append(cls)
            if cls == "card" and "style" not in d:
                cur = {"selector": None, "file": None, "bg": None, "before": None, "after": None, "codes": []}
                cards.append(cur)
            elif cls == "color-box" and cur is not None:
                m = _STYLE.match(d.get("style", "").strip())
                if m:
                    cur["bg"] = m.group(1).strip()
                    cur.setdefault("style_colors", []).append(m.group(2).strip())
        elif e[0] == "end":
            if stack:
                stack.pop()
        elif e[0] == "text" and cur is not None and stack:
            cls = stack[-1]
            if cls == "selector":
                cur["selector"] = e[1].strip()
            elif cls == "file-info":
                cur["file"] = e[1].strip()
            elif cls == "color-code":
                cur["codes"].append(e[1].strip())
    for c in cards:
        if len(c["codes"]) >= 2:
            c["before"], c["after"] = c["codes"][0], c["codes"][1]
    return cards


class Workdir:
    """Fresh directory under /var/tmp holding inputs; removed on exit."""

    def __init__(self, prefix="cmcli-"):
        self.path = tempfile.mkdtemp(prefix=prefix, dir="/var/tmp")

    def write(self, rel, data):
        p = os.path.join(self.path, rel)
        os.makedirs(os.path.dirname(p), exist_ok=True)
        with open(p, "wb") as f:
            f.write(data if isinstance(data, bytes) else data.encode("utf-8"))
        return p

    def listing(self):
        out = []
        for root, dirs, files in os.walk(self.path):
            for n in files + [d for d in dirs if os.path.islink(os.path.join(root, d))]:
                out.append(os.path.relpath(os.path.join(root, n), self.path))
        return sorted(out)

    def __enter__(self):
        return self

    def __exit__(self, *a):
        shutil.rmtree(self.path, ignore_errors=True)
