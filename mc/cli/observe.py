"""Run one generated stylesheet through the real command and collect every observable."""
import os
import re

from mc.cli import run as R
from mc.oracle import css_color, css_tokens

SETTINGS = [(m, p, bg) for m in (0, 1, 2) for p in (False, True) for bg in (None, "#1e1e1e")]


def cli_args(path, settings):
    mode, premium, dbg = settings
    a = [path, "--mode", str(mode)]
    if premium:
        a.append("--premium")
    if dbg:
        a += ["--default-bg", dbg]
    return a


def stat_sig(p):
    st = os.lstat(p)
    return (st.st_ino, st.st_mtime_ns, st.st_size)


def run_sheet(text, settings, name="s.css", extra_files=None):
    """-> observation dict.  extra_files: {relative name: bytes/str} written beside the sheet (not passed as args)."""
    with R.Workdir() as w:
        p = w.write(name, text)
        for k, v in (extra_files or {}).items():
            w.write(k, v)
        before = {n: (open(os.path.join(w.path, n), "rb").read(), stat_sig(os.path.join(w.path, n))) for n in w.listing()}
        res = R.run_cli(cli_args(p, settings), w.path)
        after_list = w.listing()
        after = {}
        for n in after_list:
            q = os.path.join(w.path, n)
            after[n] = (open(q, "rb").read(), stat_sig(q))
        stem = name[:-4]
        outname = stem + "_cm.css"
        out_text = after[outname][0].decode("utf-8", "replace") if outname in after else None
        counts, listed, nproc = R.parse_stdout(res["stdout"])
        cards = R.parse_report(os.path.join(w.path, "cm_colors_report.html"))
        return dict(res=res, before=before, after=after, out_text=out_text, outname=outname, counts=counts, listed=listed,
                    nproc=nproc, cards=cards, name=name)


_VAR = re.compile(r"^var\(\s*(--[^\s,)]+)\s*(?:,\s*(.*))?\)$", re.S)


def _find_var(v):
    """(start, end, name, fallback or None) of the first var() function in v (balanced parentheses), or None."""
    m = re.search(r"var\(", v, re.I)
    if not m:
        return None
    depth, i = 1, m.end()
    while i < len(v) and depth:
        depth += v[i] == "("
        depth -= v[i] == ")"
        i += 1
    if depth:
        return None
    inner = v[m.end():i - 1]
    name, _, fb = inner.partition(",")
    return m.start(), i, name.strip(), (fb.strip() if _ else None)


def resolve(value, defs, seen=()):
    """CSS custom-property substitution: every var() in the value is replaced by the property's (resolved) value or, failing
    that, by its fallback.  None = invalid at computed-value time (a reference that cannot be substituted)."""
    if value is None:
        return None
    v = value.strip()
    for _ in range(32):
        f = _find_var(v)
        if f is None:
            return v
        start, end, name, fb = f
        rep = None
        if name in defs and name not in seen:
            rep = resolve(defs[name], defs, seen + (name,))
        if rep is None and fb is not None:
            rep = resolve(fb, defs, seen)
        if rep is None:
            return None
        v = (v[:start] + rep + v[end:]).strip()
    return None


def var_name(value):
    m = _VAR.match((value or "").strip())
    return m.group(1) if m else None


def sel_key(text):
    """Selector compared by token value (quote style, escape spelling and comments do not matter; whitespace collapsed)."""
    if text is None:
        return None
    return css_tokens.norm_tokens(css_tokens.tokenize(text), drop_comments=True)


def output_model(out_text):
    """{selector key: [(declaration list, at-rule path) in document order]}, custom property table as the cascade resolves it:
    importance first (!important beats plain), then specificity (:root beats html), then order (the last one wins)."""
    rules = css_tokens.find_rules(out_text)
    best = {}
    by_sel = {}
    for sel, decls, path, key in rules:
        by_sel.setdefault(key, []).append((decls, path))
        if sel in (":root", "html"):
            for d in decls:
                if d[0] == "decl" and d[1].startswith("--"):
                    rank = (bool(d[3]), sel == ":root")
                    if d[1] not in best or rank >= best[d[1]][0]:
                        best[d[1]] = (rank, css_tokens.serialize_value(d[2]))
    return by_sel, {k: v[1] for k, v in best.items()}


def last_decl(decls, prop):
    """The declaration of `prop` that wins the cascade inside one rule: the last !important one, else the last one."""
    v = None
    for d in decls:
        if d[0] == "decl" and d[1].lower() == prop and (v is None or d[3] or not v[3]):
            v = d
    return v


_L4 = re.compile(r"^(rgb|hsl)a?\(\s*([^\s,/()]+)[\s,]+([^\s,/()]+)[\s,]+([^\s,/()]+)\s*(?:[,/]\s*([^\s,/()]+)\s*)?\)$", re.I)


def level3_spelling(text):
    """CSS Color 4 made rgb()/rgba() and hsl()/hsla() aliases and added the 'r g b / a' syntax; the reference parser is
    Level 3, so such a value is rewritten to its Level 3 spelling first (anything else is returned unchanged)."""
    m = _L4.match(text.strip())
    if not m or css_color.parse(text, allow_bare_hex=False) is not None:
        return text
    fn, a, b, c, alpha = m.groups()
    if alpha is None:
        return "%s(%s, %s, %s)" % (fn.lower(), a, b, c)
    return "%sa(%s, %s, %s, %s)" % (fn.lower(), a, b, c, alpha)


def colour_key(text):
    """Comparable value of a CSS colour string (exact rationals), or None."""
    return css_color.parse(level3_spelling(text), allow_bare_hex=False) if isinstance(text, str) else None


def opaque_rgb(text, over=None):
    """RGB a consumer sees; translucent colours composited over `over` (exact blend, nearest; None on ties)."""
    p = colour_key(text)
    if p is None:
        return None
    r, g, b, a = p
    if a != 1:
        if over is None:
            return None
        r, g, b = css_color.blend((r, g, b), a, over)
    sets = [css_color.nearest8(x) for x in (r, g, b)]
    if any(len(s) != 1 for s in sets):
        return None
    return tuple(next(iter(s)) for s in sets)
