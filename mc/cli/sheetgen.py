"""Stylesheet AST + renderer.  The harness knows by construction which rules carry a text colour, their
background and which custom properties they reach - no CSS parser is trusted for the expectation."""

WRAPPERS = {
    "none": (),
    "media": ("@media (min-width: 600px)",),
    "supports": ("@supports (display: grid)",),
    "media_supports": ("@media screen and (max-width: 70em)", "@supports (display: grid)"),
    "deep3": ("@media screen", "@supports (display: grid)", "@media (min-width: 1px)"),
}

# custom properties an item may need: name -> (block selector, value)
PROPS = {
    "--t": (":root", "#777"),
    "--u": (":root", "var(--t)"),
    "--bg": (":root", "#fafafa"),
    "--h": ("html", "#8a8a8a"),
    "--ok": (":root", "#111"),
    "--d": (":root", "#777"),
    "--e": ("html", "#999"),
    "--ti": (":root", "#777 !important"),
}


class Item:
    def __init__(self, kind, decls, needs=(), selector=None, note="", extra_blocks=(), selector_fmt=None):
        self.selector_fmt = selector_fmt   # e.g. ".r%d, .x%d > p:hover" (still unique per rule)
        self.extra_blocks = tuple(extra_blocks)   # raw CSS emitted before the rules (e.g. a second definition of a property)
        self.kind = kind
        self.decls = decls          # [(name, value, important)] or raw strings (junk / comments)
        self.needs = tuple(needs)   # custom properties that must be defined
        self.selector = selector    # fixed selector (":root"/"html") or None -> .r<i>
        self.note = note

    def has_text_colour(self):
        return any(isinstance(d, tuple) and d[0].lower() == "color" for d in self.decls)

    def last(self, prop):
        v = None
        for d in self.decls:
            # the cascade inside one rule: the last !important declaration wins, else the last one
            if isinstance(d, tuple) and d[0].lower() == prop and (v is None or d[2] or not v[2]):
                v = d
        return v


KINDS = {
    "lit_fail": lambda: Item("lit_fail", [("color", "#777", False)]),
    "lit_own_bg": lambda: Item("lit_own_bg", [("color", "#888", False), ("background-color", "#eee", False)]),
    "readable": lambda: Item("readable", [("color", "#222", False), ("background-color", "#fff", False)]),
    "unfixable": lambda: Item("unfixable", [("color", "yellow", False), ("background-color", "white", False)]),
    "var_t": lambda: Item("var_t", [("color", "var(--t)", False)], needs=("--t",)),
    "var_t_other_bg": lambda: Item("var_t_other_bg", [("color", "var(--t)", False), ("background-color", "#eee", False)], needs=("--t",)),
    "var_chained": lambda: Item("var_chained", [("color", "var(--u)", False)], needs=("--t", "--u")),
    "var_fallback_defined": lambda: Item("var_fallback_defined", [("color", "var(--t, #767676)", False)], needs=("--t",)),
    "var_undefined_fallback": lambda: Item("var_undefined_fallback", [("color", "var(--undefined, #777)", False)]),
    "var_undefined_fallback_then_more": lambda: Item("var_undefined_fallback_then_more", [("color", "var(--undefined, #888)", False), ("margin", "0 auto", True), ("border", "1px solid #8a8a8a", False)]),
    "var_t_then_more": lambda: Item("var_t_then_more", [("color", "var(--t)", False), ("margin", "0 auto", False)], needs=("--t",)),
    "var_undefined": lambda: Item("var_undefined", [("color", "var(--nope)", False)]),
    "var_html": lambda: Item("var_html", [("color", "var(--h)", False)], needs=("--h",)),
    "var_readable": lambda: Item("var_readable", [("color", "var(--ok)", False)], needs=("--ok",)),
    # the same custom property defined in :root and in html: by the cascade :root (a pseudo-class) wins whatever the order
    "var_both_root_first": lambda: Item("var_both_root_first", [("color", "var(--d)", False)], needs=("--d",), extra_blocks=("html {\n  --d: #999;\n}\n",)),
    "var_both_html_first": lambda: Item("var_both_html_first", [("color", "var(--e)", False)], needs=("--e",), extra_blocks=(":root {\n  --e: #8a8a8a;\n}\n",)),
    "var_spaces": lambda: Item("var_spaces", [("color", "var( --t )", False)], needs=("--t",)),
    "multi_selector": lambda: Item("multi_selector", [("color", "#777", False)], selector_fmt=".r%d, .x%d > p:hover"),
    "var_bg_and_text": lambda: Item("var_bg_and_text", [("color", "var(--t)", False), ("background-color", "var(--bg)", False)], needs=("--t", "--bg")),
    "prop_important": lambda: Item("prop_important", [("color", "var(--ti)", False)], needs=("--ti",)),
    # rare but valid tokens inside a rule the tool rewrites: blank-then-semicolon inside strings, comments and quoted urls, escapes
    "rare_tokens": lambda: Item("rare_tokens", [("content", '" ; "', False), "/* keep ; here */",
                                                ("background-image", 'url("data:image/svg+xml ;utf8,<svg/>")', False),
                                                ("color", "#777", False), ("font-family", '"A \\"B\\" ;", serif', False),
                                                ("unicode-range", "U+0025-00FF, u+4??", False), ("margin", "0 ! important", False)]),
    "var_root_strings": lambda: Item("var_root_strings", [("color", "var(--t)", False)], needs=("--t",),
                                     extra_blocks=(':root {\n  --sep: "a ;b"; /* x ; y */\n  --w: " ;";\n}\n',)),
    # translucent text whose exact blend sits just below a threshold (truncating instead of rounding the blend lifts it over)
    "hsla_premium_edge": lambda: Item("hsla_premium_edge", [("color", "hsla(210, 100%, 20%, 0.8)", False)]),
    "hsla_on_light": lambda: Item("hsla_on_light", [("color", "hsla(210, 100%, 35%, 0.85)", False), ("background-color", "#f0f0f0", False)]),
    "rgba_premium_edge": lambda: Item("rgba_premium_edge", [("color", "rgba(0, 51, 102, 0.8)", False)]),
    # var() as a part of a larger value: the reference is a token substitution, not "the value is the property"
    "var_inside_rgba": lambda: Item("var_inside_rgba", [("color", "rgba(var(--ink), 0.3)", False)], extra_blocks=(":root {\n  --ink: 0, 0, 0;\n}\n",)),
    "var_inside_rgb": lambda: Item("var_inside_rgb", [("color", "rgb(var(--ink2))", False)], extra_blocks=(":root {\n  --ink2: 119, 119, 119;\n}\n",)),
    "var_in_color_mix": lambda: Item("var_in_color_mix", [("color", "color-mix(in srgb, var(--t) 20%, white)", False)], needs=("--t",)),
    # colour functions the tool does not know: their numbers are not rgb components
    "fn_oklch": lambda: Item("fn_oklch", [("color", "oklch(0.9 0.05 200)", False)]),
    "fn_lab": lambda: Item("fn_lab", [("color", "lab(90% 0 0)", False)]),
    "fn_color_srgb": lambda: Item("fn_color_srgb", [("color", "color(srgb 0.9 0.9 0.9)", False)]),
    "fn_hwb": lambda: Item("fn_hwb", [("color", "hwb(0 80% 0%)", False), ("background-color", "#fff", False)]),
    # a custom property shared with other rules in another role: as a background, and by a rule that cannot be fixed
    "bg_uses_h": lambda: Item("bg_uses_h", [("color", "#222", False), ("background-color", "var(--h)", False)], needs=("--h",)),
    "var_t_unfixable_bg": lambda: Item("var_t_unfixable_bg", [("color", "var(--t)", False), ("background-color", "#777", False)], needs=("--t",)),
    # CSS Color 4 alias forms: hsl() / rgb() carrying an alpha
    "hsl_with_alpha": lambda: Item("hsl_with_alpha", [("color", "hsl(0, 0%, 0%, 0.3)", False)]),
    "hsl_slash_alpha": lambda: Item("hsl_slash_alpha", [("color", "hsl(0 0% 40% / 0.1)", False), ("background-color", "#fff", False)]),
    "hsla_slash_alpha": lambda: Item("hsla_slash_alpha", [("color", "hsla(0 0% 0% / 0.5)", False)]),
    "rgb_slash_alpha": lambda: Item("rgb_slash_alpha", [("color", "rgb(0 0 0 / 0.3)", False)]),
    # the same selector in two rules (a base rule and an override): cards and counts must still tell them apart
    "dup_light": lambda: Item("dup_light", [("color", "#888", False), ("background-color", "#fff", False)], selector_fmt=".dup"),
    "dup_dark": lambda: Item("dup_dark", [("color", "#777", False), ("background-color", "#222", False)], selector_fmt=".dup"),
    # adjusted rules whose selectors hold strings with runs of blanks, escapes, comments, non-ASCII
    "sel_attr_spaces": lambda: Item("sel_attr_spaces", [("color", "#888", False), ("background-color", "#fff", False)],
                                    selector_fmt='a[title="Read   more {i}"]::after'),
    "sel_escaped": lambda: Item("sel_escaped", [("color", "#999", False)], selector_fmt=".menu\\  .item{i} > li"),
    "sel_comment_nonascii": lambda: Item("sel_comment_nonascii", [("color", "#8a8a8a", False)], selector_fmt=".\u00fc{i} /* c */ > p:not(.x)::before"),
    "bg_first_important": lambda: Item("bg_first_important", [("background-color", "#eee", True), ("color", "#888", False)]),
    "bg_black_first_only": lambda: Item("bg_black_first_only", [("background-color", "#000000", False), ("color", "#bbbbbb", False)]),
    "bg_dark_first": lambda: Item("bg_dark_first", [("background-color", "#222", False), ("margin", "0", False), ("color", "#666", False)]),
    "important": lambda: Item("important", [("color", "#777", True)]),
    # !important beats a later plain declaration of the same property
    "important_then_plain": lambda: Item("important_then_plain", [("color", "#000", True), ("color", "#777", False)]),
    "important_fail_then_plain": lambda: Item("important_fail_then_plain", [("color", "#777", True), ("margin", "0", False), ("color", "#000", False)]),
    "bg_important_then_plain": lambda: Item("bg_important_then_plain", [("color", "#777", False), ("background-color", "#fff", True), ("background-color", "#000", False)]),
    # the same for definitions of a custom property: !important beats order and specificity
    "var_def_important_then_plain": lambda: Item("var_def_important_then_plain", [("color", "var(--ip)", False)],
                                                 extra_blocks=(":root {\n  --ip: #000 !important;\n  --ip: #888;\n}\n",)),
    "var_def_html_important": lambda: Item("var_def_html_important", [("color", "var(--hi)", False)],
                                           extra_blocks=("html {\n  --hi: #777 !important;\n}\n:root {\n  --hi: #111;\n}\n",)),
    "both_important": lambda: Item("both_important", [("color", "#000", True), ("color", "#888", True)]),
    "repeated": lambda: Item("repeated", [("color", "#000", False), ("margin", "0", False), ("color", "#777", False)]),
    "repeated_after_bg": lambda: Item("repeated_after_bg", [("color", "#333", False), ("background-color", "#fff", False), ("color", "#999", False)]),
    "repeated_bg": lambda: Item("repeated_bg", [("background-color", "#000", False), ("color", "#ccc", False), ("background-color", "#fff", False)]),
    "root_literal": lambda: Item("root_literal", [("color", "#999", False)], selector=":root"),
    "html_literal": lambda: Item("html_literal", [("color", "#999", False), ("background-color", "#fff", False)], selector="html"),
    "sp_rgb": lambda: Item("sp_rgb", [("color", "rgb(119, 119, 119)", False)]),
    "sp_hsl": lambda: Item("sp_hsl", [("color", "hsl(210, 20%, 55%)", False)]),
    "sp_keyword": lambda: Item("sp_keyword", [("color", "gray", False), ("background-color", "#fff", False)]),
    "sp_rgba": lambda: Item("sp_rgba", [("color", "rgba(0, 0, 0, 0.5)", False), ("background-color", "#ddeeff", False)]),
    "inherit": lambda: Item("inherit", [("color", "inherit", False)]),
    "upper_prop": lambda: Item("upper_prop", [("COLOR", "#777", False)]),
    "bg_var": lambda: Item("bg_var", [("color", "#777", False), ("background-color", "var(--bg)", False)], needs=("--bg",)),
    "with_noise": lambda: Item("with_noise", [("margin", "0 auto", False), "/* keep me */", ("color", "#777", False), ("padding", "1px 2px", True)]),
    "star_hack": lambda: Item("star_hack", ["*zoom: 1", ("color", "#777", False)]),
    "bg_only": lambda: Item("bg_only", [("background-color", "#000", False)]),
}
ORDER = list(KINDS)
CORE = ["lit_fail", "lit_own_bg", "readable", "unfixable", "var_t", "var_t_other_bg", "var_html", "root_literal", "important", "star_hack"]


def interacts(kind):
    """Items that can influence another rule of the sheet (custom properties, fixed or shared selectors, extra blocks, a
    declaration the serializer chokes on): the quick tier pairs these with each other and everything with CORE."""
    it = KINDS[kind]()
    shared_sel = bool(it.selector_fmt) and "{i}" not in it.selector_fmt and "%" not in it.selector_fmt
    junk = any(isinstance(d, str) and not d.startswith("/*") for d in it.decls)
    return bool(it.needs or it.extra_blocks or it.selector or shared_sel or junk)


def quick_pairs(kinds):
    """Ordered pairs explored by the quick tiers: both items interacting, or one of them in CORE (the thorough tiers take all)."""
    inter = {k for k in kinds if k in KINDS and interacts(k)}
    core = set(CORE)
    return [(a, b) for a in kinds for b in kinds if (a in inter and b in inter) or a in core or b in core]


def render_item(item, idx, wrapper="none", indent=""):
    if item.selector:
        sel = item.selector
    elif item.selector_fmt:
        sel = item.selector_fmt.replace("{i}", str(idx)) if "{i}" in item.selector_fmt or "%" not in item.selector_fmt else item.selector_fmt % (idx, idx)
    else:
        sel = ".r%d" % idx
    parts = []
    for d in item.decls:
        if isinstance(d, tuple):
            parts.append("%s: %s%s;" % (d[0], d[1], " !important" if d[2] else ""))
        elif d.startswith("/*"):
            parts.append(d)
        else:
            parts.append(d + ";")
    body = "%s%s {\n%s  %s\n%s}\n" % (indent, sel, indent, ("\n%s  " % indent).join(parts), indent)
    w = WRAPPERS[wrapper]
    for pre in reversed(w):
        body = "%s {\n%s}\n" % (pre, "".join("  " + l + "\n" for l in body.rstrip("\n").split("\n")))
    return sel, body


class Sheet:
    """items: [(kind, wrapper)] ; passthrough: [(position, text)] inserted before item #position (len = at end)."""

    def __init__(self, items, passthrough=(), props_override=None):
        self.spec = [tuple(x) for x in items]
        self.items = [KINDS[k]() for k, _ in self.spec]
        self.passthrough = list(passthrough)
        self.props = dict(PROPS)
        if props_override:
            self.props.update(props_override)
        self.rules = []   # [(selector, Item, wrapper)]
        self.text = self._render()

    def _render(self):
        needs = []
        for it in self.items:
            for n in it.needs:
                if n not in needs:
                    needs.append(n)
        blocks = {}
        for n in needs:
            sel, val = self.props[n]
            blocks.setdefault(sel, []).append("  %s: %s;" % (n, val))
        out = []
        # an item that *is* a :root / html rule carries the custom properties of that block too
        fixed = {it.selector for it in self.items if it.selector}
        for sel, lines in blocks.items():
            if sel not in fixed:
                out.append("%s {\n%s\n}\n" % (sel, "\n".join(lines)))
        self.defs = {n: self.props[n] for n in needs}
        for it in self.items:
            for blk in it.extra_blocks:
                if blk not in out:
                    out.append(blk)
        chunks = []
        for i, (it, (kind, wrapper)) in enumerate(zip(self.items, self.spec)):
            for pos, txt in self.passthrough:
                if pos == i:
                    chunks.append(txt if txt.endswith("\n") else txt + "\n")
            if it.selector and it.selector in blocks:
                extra = [(l.strip().split(":")[0], l.strip().split(":", 1)[1].strip().rstrip(";"), False) for l in blocks[it.selector]]
                it.decls = extra + list(it.decls)
            sel, body = render_item(it, i, wrapper)
            self.rules.append((sel, it, wrapper))
            chunks.append(body)
        for pos, txt in self.passthrough:
            if pos >= len(self.items):
                chunks.append(txt if txt.endswith("\n") else txt + "\n")
        text = "".join(out) + "".join(chunks)
        from mc.cli import observe

        # cascade-aware table of the custom properties as CSS resolves them (:root beats html), read with the harness's own tokenizer
        self.defs_css = observe.output_model(text)[1]
        return text

    def describe(self):
        return {"items": [list(x) for x in self.spec], "passthrough": [list(p) for p in self.passthrough]}
