"""Maintenance tool (never run by a registered command): lists the exact failing inputs of the recorded known findings.

usage: python -m mc.gen_known <dir with <PROP>_<tier>_<phase>.json files written under VERIF_RECORD_CASES>
Merges the case hashes per known signature into known/<PROP>_<sig>.json.  Signatures that are not listed in
known_findings.txt are printed and NOT written (they would be new violations)."""
import glob
import json
import os
import sys

from mc.runner import HOME, load_known


def main(d):
    known, _ = load_known()
    want = {(k["property"], k["sig"]): k for k in known}
    merged = {}
    for f in sorted(glob.glob(os.path.join(d, "*.json"))):
        prop = os.path.basename(f).split("_")[0]
        for sig, hashes in json.load(open(f)).items():
            merged.setdefault((prop, sig), set()).update(hashes)
    for (prop, sig), hs in sorted(merged.items()):
        if (prop, sig) not in want:
            print("NOT A LISTED FINDING (left out): %s %s  (%d cases)" % (prop, sig, len(hs)))
            continue
        path = os.path.join(HOME, want[(prop, sig)]["cases"])
        os.makedirs(os.path.dirname(path), exist_ok=True)
        old = set()
        if os.path.exists(path):
            old = set(json.load(open(path))["cases"])
        json.dump({"property": prop, "sig": sig, "cases": sorted(old | hs)}, open(path, "w"), indent=0)
        print("%s %s: %d cases (%d new)" % (prop, sig, len(old | hs), len(hs - old)))


if __name__ == "__main__":
    main(sys.argv[1])
