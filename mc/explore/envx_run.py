"""Driver for the environment-answer exploration: scenarios x modes, invariants per property (DESIGN.md 4-X)."""
from mc.explore import envx
from mc.explore.forked import forked
from mc.oracle import ciede2000, wcag

# invariants whose violation is sound under the statement itself (C04 quantifies over any contract-honouring routine)
SOUND = {"C04"}


def _check(prop, h, text, bg, mode, large, vr, env, res):
    """-> list of (sig, msg) for one execution."""
    from cm_colors.core.color_metrics import calculate_delta_e_2000 as lib_de

    col, ok, chain, _calls = res
    need = wcag.minimum(large, vr)
    out = []
    if col is None or not isinstance(ok, bool):
        return [("strategy/malformed_result", "check_and_fix_contrast returned %r" % (res[:2],))]
    r0, r1 = wcag.ratio(text, bg), wcag.ratio(col, bg)
    if prop == "C01":
        m = wcag.meets(r1, need)
        if m is not None and m != ok:
            out.append(("strategy/flag_differs_from_verdict", "returned (%s, %s): ratio %.4f, minimum %.1f" % (col, ok, r1, need)))
    elif prop == "C02":
        if r1 < r0 - 1e-12:
            out.append(("strategy/contrast_dropped", "ratio %.4f -> %.4f (returned %s)" % (r0, r1, col)))
    elif prop == "C04":
        if mode == 0 and (lib_de(text, col) > 5.0 or ciede2000.delta_e(text, col) > 5.05):
            out.append(("strategy/strict_mode_over_5", "strict mode returned %s at dE00 %.3f" % (col, lib_de(text, col))))
        allowed = {tuple(text)}
        for cin, mx, cout in chain:
            if tuple(cin) not in allowed:
                out.append(("strategy/chain_not_contiguous", "a search was started from %s, neither the original nor a previous step's result" % (cin,)))
                break
            lim = mx if mx is not None else (5.0 if mode == 0 else None)
            if lim is not None and isinstance(cout, tuple) and max(lib_de(tuple(cin), tuple(cout)), ciede2000.delta_e(tuple(cin), tuple(cout)) - 0.05) > lim:
                out.append(("strategy/step_exceeds_schedule", "a step moved %s -> %s beyond its largest tolerance %.1f" % (cin, cout, lim)))
                break
            allowed.add(tuple(cout))
        else:
            if chain and col not in allowed:
                out.append(("strategy/result_not_from_chain", "returned %s, which no step produced" % (col,)))
    elif prop == "C16":
        if mode == 2:
            e1 = envx.Env(bg, need, 4.5 if large else 7.0, [], fixed=dict(env.memo))
            c1, ok1, _, _ = h.run(text, bg, 1, large, vr, e1)
            if ok1 is True and not (ok is True and col == c1):
                out.append(("strategy/mode2_differs_from_successful_mode1", "same environment: mode 1 -> (%s, True), mode 2 -> (%s, %s)" % (c1, col, ok)))
        if vr and ok is True:
            e2 = envx.Env(bg, wcag.minimum(large, False), 4.5 if large else 7.0, [], fixed=dict(env.memo))
            c2, ok2, _, _ = h.run(text, bg, mode, large, False, e2)
            if ok2 is not True:
                out.append(("strategy/very_readable_succeeds_ordinary_fails", "same environment: very_readable -> (%s, True), ordinary -> (%s, %s)" % (col, c2, ok2)))
    return out


def _real_consistent(h, env, bg, target):
    """True when every answer the script gave equals what the real routine returns for that key."""
    real = {"binary": h.orig["binary_search_lightness"], "gradient": h.orig["gradient_descent_oklch"]}
    for (phase, cur, tol), ans in env.memo.items():
        try:
            r = real[phase](cur, bg, tol, target)
        except Exception:  # noqa
            return False
        if (tuple(r) if r is not None else None) != ans:
            return False
    return True


def job(args):
    """(forked child) full exploration of one (scenario, mode) for one property."""
    prop, text, bg, large, vr, mode, bound, budget = args
    h = envx.Harness()
    if not h.ok:
        return {"skipped": True}
    h.install()
    target = 4.5 if large else 7.0
    stats = {"executions": 0, "outcomes": set(), "viol": [], "unconfirmed": [], "max_keys": 0, "capped": False, "deviant": 0}

    def on(env, res):
        stats["executions"] += 1
        if any(env.choices):
            stats["deviant"] += 1
        stats["outcomes"].add((res[0], res[1]))
        for sig, msg in _check(prop, h, text, bg, mode, large, vr, env, res):
            script = [[list(k[1]), k[0], k[2], (list(a) if a else None)] for k, a in env.memo.items() if a is not None]
            item = dict(sig=sig, msg="%s on %s mode=%d large=%s very_readable=%s under scripted search answers %s: %s"
                        % (text, bg, mode, large, vr, script[:4], msg),
                        case={"kind": "envx", "text": list(text), "bg": list(bg), "mode": mode, "large": large, "very_readable": vr,
                              "choices": list(env.choices)})
            if prop in SOUND or _real_consistent(h, env, bg, target):
                if len(stats["viol"]) < 4:
                    stats["viol"].append(item)
            elif len(stats["unconfirmed"]) < 3:
                stats["unconfirmed"].append({"sig": sig, "msg": item["msg"][:300], "choices": list(env.choices)})
            stats["n_unconfirmed"] = stats.get("n_unconfirmed", 0) + (0 if (prop in SOUND) else 1)

    try:
        n, maxk, capped = envx.explore(h, text, bg, mode, large, vr, bound, on, budget)
    finally:
        h.remove()
    stats["max_keys"], stats["capped"] = maxk, capped
    stats["outcomes"] = len(stats["outcomes"])
    return stats


def replay(prop, case):
    """Re-run one scripted path."""
    h = envx.Harness()
    if not h.ok:
        return []
    h.install()
    try:
        text, bg = tuple(case["text"]), tuple(case["bg"])
        large, vr, mode = case["large"], case["very_readable"], case["mode"]
        env = envx.Env(bg, wcag.minimum(large, vr), 4.5 if large else 7.0, case["choices"])
        res = h.run(text, bg, mode, large, vr, env)
        out = []
        for sig, msg in _check(prop, h, text, bg, mode, large, vr, env, res):
            if prop in SOUND or _real_consistent(h, env, bg, 4.5 if large else 7.0):
                out.append(dict(sig=sig, msg=msg, case=case))
        return out
    finally:
        h.remove()


def run(ctx, prop):
    """Adds the sub-check 'strategy_layer_environment_answers' to ctx for property `prop`."""
    sc = envx.scenarios()
    if ctx.quick:
        sc = sc[ctx.phase % 2::2]
    jobs = []
    for (text, bg, large, vr) in sc:
        for mode in (0, 1, 2):
            if prop == "C16" and mode != 2 and not vr:
                continue
            bound = 2 if (not ctx.quick or mode == 0) else 1
            jobs.append((prop, text, bg, large, vr, mode, bound, 400000))
    from mc.explore.forked import call_forked

    tot = dev = 0
    outcomes = 0
    unconf = []
    n_unconf = 0
    capped = False
    maxk = 0
    skipped = False
    for st in ctx.pmap(call_forked, [(job, j) for j in jobs]):
        if st.get("skipped"):
            skipped = True
            continue
        tot += st["executions"]
        dev += st["deviant"]
        outcomes += st["outcomes"]
        maxk = max(maxk, st["max_keys"])
        capped = capped or st["capped"]
        ctx.add_violations(st["viol"])
        unconf += st["unconfirmed"]
        n_unconf += st.get("n_unconfirmed", 0)
    if skipped or not tot:
        ctx.skip("strategy_layer_environment_answers", "the documented search routines are not attributes of cm_colors.core.optimisation")
        return
    ctx.sub("strategy_layer_environment_answers", states=tot, transitions=tot, evaluations=tot, traces=tot, distinct_nontrivial=dev,
            exhaustive=not capped, scenarios=len(sc), jobs=len(jobs), deviation_bound="2 (quick: 2 for mode 0, 1 for modes 1/2)",
            max_choice_points_per_execution=maxk, distinct_outcomes_summed_over_jobs=outcomes,
            unconfirmed_strategy_paths=n_unconf, unconfirmed_examples=unconf[:5])
    ctx.sample({"subcheck": "envx", "text": list(sc[0][0]), "bg": list(sc[0][1]), "mode": 2, "choices": [0, 3, 0, 0, 1],
                "meaning": "answer index per discovered (phase, current colour, tolerance) key; 0 = the routine returns nothing"})
