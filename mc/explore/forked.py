"""Run a function in a child forked from the (pristine) current process and return its pickled result."""
import os
import pickle
import traceback


def forked(fn, *args):
    r, w = os.pipe()
    pid = os.fork()
    if pid == 0:
        code = 0
        try:
            os.close(r)
            try:
                payload = ("ok", fn(*args))
            except BaseException as e:  # noqa
                payload = ("exc", "%s: %s\n%s" % (type(e).__name__, e, traceback.format_exc()[-1500:]))
            data = pickle.dumps(payload)
            with os.fdopen(w, "wb") as f:
                f.write(data)
        except BaseException:  # noqa
            code = 3
        finally:
            os._exit(code)
    os.close(w)
    chunks = []
    with os.fdopen(r, "rb") as f:
        while True:
            b = f.read(1 << 16)
            if not b:
                break
            chunks.append(b)
    _, status = os.waitpid(pid, 0)
    if not chunks:
        return ("exc", "child died with status %s and no output" % status)
    return pickle.loads(b"".join(chunks))


def call_forked(args):
    """(fn, item) -> fn(item) evaluated in a forked child of the (pristine) worker."""
    fn, item = args
    status, res = forked(fn, item)
    if status != "ok":
        raise RuntimeError("%s(%r) failed in the child: %s" % (getattr(fn, "__name__", fn), item, res))
    return res
