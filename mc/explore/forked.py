"""Run a function in a child forked from the (pristine) current process and return its pickled result."""
import os
import pickle
import traceback


def forked(fn, *args):
    r, w = os.pipe()
    pid = os.fork()
    if pid == 0:
        code = 0
        try:
            os.close(r)
            try:
                payload = ("ok", fn(*args))
            except BaseException as e:  # noqa
                payload = ("exc", "%s: %s\n%s" % (type(e).__name__, e, traceback.format_exc()[-1500:]))
            data = pickle.dumps(payload)
            with os.fdopen(w, "wb") as f:
                f.write(data)
        except BaseException:  # noqa
            code = 3
        finally:
            os._exit(code)
    os.close(w)
    chunks = []
    with os.fdopen(r, "rb") as f:
        while True:
            b = f.read(1 << 16)
            if not b:
                break
            chunks.append(b)
    _, status = os.waitpid(pid, 0)
    if not chunks:
        return ("exc", "child died with status %s and no output" % status)
    return pickle.loads(b"".join(chunks))


def call_forked(args):
    """(fn, item) -> fn(item) evaluated in a forked child of the (pristine) worker."""
    fn, item = args
    status, res = forked(fn, item)
    if status != "ok":
        raise RuntimeError("%s(%r) failed in the child: %s" % (getattr(fn, "__name__", fn), item, res))
    return res


def _tag(obj, module, fn_name, arg):
    """Attach the chunk (module, function, argument) to every violation dict found in a chunk's result."""
    if isinstance(obj, dict) and "sig" in obj and "case" in obj:
        obj.setdefault("chunk_case", {"kind": "chunk", "module": module, "fn": fn_name, "arg": arg, "expect_sig": obj["sig"]})
    elif isinstance(obj, (list, tuple)):
        for x in obj:
            _tag(x, module, fn_name, arg)


def call_chunk(args):
    """(module name, function name, JSON-able argument): run the chunk in a forked child; violations carry the chunk as
    replay context, so a failure that depends on earlier cases of the same chunk can still be replayed."""
    import importlib

    module, fn_name, arg = args
    fn = getattr(importlib.import_module(module), fn_name)
    status, res = forked(fn, arg)
    if status != "ok":
        raise RuntimeError("%s.%s(%r) failed in the child: %s" % (module, fn_name, arg, res))
    _tag(res, module, fn_name, arg)
    return res


def replay_chunk(case):
    """Re-run a recorded chunk (in this process) and return the violations with the recorded signature."""
    import importlib

    fn = getattr(importlib.import_module(case["module"]), case["fn"])
    out = []

    def collect(obj):
        if isinstance(obj, dict) and "sig" in obj and "case" in obj:
            if obj["sig"] == case.get("expect_sig", obj["sig"]):
                out.append(obj)
        elif isinstance(obj, (list, tuple)):
            for x in obj:
                collect(x)

    collect(fn(case["arg"]))
    return out
