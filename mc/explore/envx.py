"""Environment-answer exploration of the strategy layer (DESIGN.md section 4-X).

The mode logic (generate_accessible_color, _strategy_strict/_recursive/_relaxed, check_and_fix_contrast) is control
flow over the answers of two search phases.  Here the two documented routines optimisation.binary_search_lightness
and optimisation.gradient_descent_oklch are replaced - in the exploring process only - by a scripted environment
*function*  (phase, current text colour, tolerance) -> None | candidate.  Candidates come from a palette of real greys
classified against the scenario's minimum / target and always honour the documented contract (a valid 8-bit colour
within the given tolerance of the colour the routine was called with, on the library's and on the reference metric).
Everything else - contrast, dE, the schedules, the recursion - is the real code.

Exploration: stateless depth-first search by prefix replay.  The default answer at every key is None (choice 0);
a deviation is a non-default answer.  All environment functions with <= `bound` deviations are explored; keys are
discovered on the fly in a deterministic order, and a replayed prefix must rediscover the same keys (anything else is
a hard error).
"""
from mc.oracle import ciede2000, wcag


class Diverged(Exception):
    pass


_PALETTES = {}
_DE = {}


def _de_pair(lib_de, a, b):
    """max of the library's and the reference dE00 (the contract must hold on both), cached."""
    k = (a, b)
    v = _DE.get(k)
    if v is None:
        v = _DE[k] = max(lib_de(a, b), ciede2000.delta_e(a, b))
    return v


class Env:
    def __init__(self, bg, need, target, prefix, expect_keys=None, fixed=None):
        self.bg, self.need, self.target = bg, need, target
        self.prefix = list(prefix)
        self.expect = expect_keys
        self.fixed = fixed            # key -> answer map (function semantics across runs), or None
        self.keys, self.nalts, self.choices, self.memo = [], [], [], {}
        self.calls = 0

    def palette(self, cur, tol):
        k = (self.bg, self.need, self.target, cur, tol)
        p = _PALETTES.get(k)
        if p is None:
            p = _PALETTES[k] = self._palette(cur, tol)
        return p

    def _palette(self, cur, tol):
        from cm_colors.core.color_metrics import calculate_delta_e_2000 as lib_de

        bg = self.bg
        lighter = wcag.luminance(cur) >= wcag.luminance(bg) and cur != bg
        # greys ordered from "towards the background" to "away from it"
        away = 1 if lighter else -1
        if wcag.luminance(bg) > 0.5 and not lighter:
            away = -1
        r0 = wcag.ratio(cur, bg)
        ok = []
        g0 = cur[0]
        for g in range(max(0, g0 - 70), min(256, g0 + 71)):
            c = (g, g, g)
            if _de_pair(lib_de, cur, c) <= tol:
                ok.append(c)
        if not ok:
            return [None]
        by_ratio = sorted(ok, key=lambda c: (wcag.ratio(c, bg), c))
        out = []

        def add(c):
            if c is not None and c not in out:
                out.append(c)

        worse = [c for c in by_ratio if wcag.ratio(c, bg) < r0 - 1e-9]
        better = [c for c in by_ratio if wcag.ratio(c, bg) > r0 + 1e-9]
        add(worse[-1] if worse else None)                                   # slightly worse than the current colour
        add(cur if cur in ok else None)                                     # equal
        add(better[0] if better else None)                                  # smallest improvement
        at_min = [c for c in better if wcag.ratio(c, bg) >= self.need + 1e-6]
        add(at_min[0] if at_min else None)                                  # just reaches the minimum
        below_min = [c for c in better if wcag.ratio(c, bg) < self.need - 1e-6]
        add(below_min[-1] if below_min else None)                           # best that still fails the minimum
        at_t = [c for c in better if wcag.ratio(c, bg) >= self.target + 1e-6]
        add(at_t[0] if at_t else None)                                      # just reaches the target
        add(better[-1] if better else None)                                 # furthest within the tolerance
        return [None] + out

    def answer(self, phase, cur, tol):
        self.calls += 1
        key = (phase, tuple(cur), float(tol))
        if key in self.memo:
            return self.memo[key]
        if self.fixed is None:
            alts = self.palette(tuple(cur), float(tol))
        if self.fixed is not None:
            # replay of a given environment function under another mode / strictness: same answers, unknown keys -> None
            ans = self.fixed.get(key)
            self.memo[key] = ans
            return ans
        i = len(self.keys)
        if self.expect is not None and i < len(self.expect) and self.expect[i] != key:
            raise Diverged("replaying a prefix rediscovered key %r at position %d, expected %r" % (key, i, self.expect[i]))
        ch = self.prefix[i] if i < len(self.prefix) else 0
        if ch >= len(alts):
            raise Diverged("choice %d out of range (%d alternatives) at key %r" % (ch, len(alts), key))
        self.keys.append(key)
        self.nalts.append(len(alts))
        self.choices.append(ch)
        self.memo[key] = alts[ch]
        return alts[ch]


class Harness:
    """Installs / removes the scripted routines and the step logger in cm_colors.core.optimisation."""

    def __init__(self):
        from cm_colors.core import optimisation as opt

        self.opt = opt
        self.ok = all(callable(getattr(opt, n, None)) for n in ("binary_search_lightness", "gradient_descent_oklch", "check_and_fix_contrast"))
        self.orig = {n: getattr(opt, n, None) for n in ("binary_search_lightness", "gradient_descent_oklch", "generate_accessible_color")}
        self.env = None
        self.chain = []

    def install(self):
        h = self

        def bs(text_rgb, bg_rgb, delta_e_threshold=2.0, target_contrast=7.0, *a, **k):
            return h.env.answer("binary", text_rgb, delta_e_threshold)

        def gd(text_rgb, bg_rgb, delta_e_threshold=2.0, target_contrast=7.0, *a, **k):
            return h.env.answer("gradient", text_rgb, delta_e_threshold)

        self.opt.binary_search_lightness = bs
        self.opt.gradient_descent_oklch = gd
        gen = self.orig["generate_accessible_color"]
        if callable(gen):
            gen = getattr(gen, "__wrapped__", gen)

            def logged(text_rgb, bg_rgb, *a, **kw):
                out = gen(text_rgb, bg_rgb, *a, **kw)
                seq = kw.get("delta_e_sequence")
                h.chain.append((tuple(text_rgb), None if seq is None else max(seq), out))
                return out

            self.opt.generate_accessible_color = logged

    def remove(self):
        for n, f in self.orig.items():
            if f is not None:
                setattr(self.opt, n, f)

    def run(self, text, bg, mode, large, vr, env):
        self.env = env
        del self.chain[:]
        res = self.opt.check_and_fix_contrast(tuple(text), tuple(bg), large, mode, vr)
        col, ok = res
        if isinstance(col, str):
            from mc.oracle import css_color

            col = css_color.read_unique(col)
        return (tuple(col) if col is not None else None), ok, list(self.chain), env.calls


def scenarios():
    """(text, bg, large, very_readable): grey text below the minimum of the setting, on white and on black."""
    out = []
    for bg in ((255, 255, 255), (0, 0, 0)):
        for large in (False, True):
            for vr in (False, True):
                need = wcag.minimum(large, vr)
                greys = [(g, g, g) for g in range(256)]
                below = [c for c in greys if 0.80 * need <= wcag.ratio(c, bg) < need - 0.02]
                if not below:
                    continue
                below.sort(key=lambda c: wcag.ratio(c, bg))
                out.append((below[len(below) // 2], bg, large, vr))
                far = [c for c in greys if 1.5 <= wcag.ratio(c, bg) < 0.55 * need]
                if far:
                    out.append((far[-1], bg, large, vr))
    return out


def explore(h, text, bg, mode, large, vr, bound, on_execution, budget=None):
    """Enumerate every environment function with <= bound deviations.  on_execution(choices, keys, result) is called
    for each complete execution.  Returns (executions, max keys per execution, capped)."""
    need = wcag.minimum(large, vr)
    target = 4.5 if large else 7.0
    count = [0]
    maxk = [0]
    capped = [False]

    def run(prefix, expect):
        env = Env(bg, need, target, prefix, expect)
        res = h.run(text, bg, mode, large, vr, env)
        return env, res

    def rec(prefix, expect, devs):
        if budget is not None and count[0] >= budget:
            capped[0] = True
            return
        env, res = run(prefix, expect)
        count[0] += 1
        maxk[0] = max(maxk[0], len(env.keys))
        on_execution(env, res)
        if devs >= bound:
            return
        for i in range(len(prefix), len(env.keys)):
            for alt in range(1, env.nalts[i]):
                rec(env.choices[:i] + [alt], env.keys[:i + 1], devs + 1)

    rec([], None, 0)
    return count[0], maxk[0], capped[0]
