"""Controlled thread scheduler for pure-Python code (sys.settrace + one baton semaphore per thread).

Only one thread runs at a time.  Scheduling points are trace events inside the package under test:
'line' events in the files listed in LINE_FILES and 'call' events everywhere else in the package.
A schedule is {point index: thread id to switch to}; the default at every point is "keep running".
When a thread finishes, the lowest-numbered unfinished thread continues.
"""
import os
import sys
import threading


class DivergedReplay(Exception):
    pass


class Scheduler:
    def __init__(self, ops, schedule, pkg_dir, line_files, record_trace=False, call_files=None, loop_lines=None):
        self.ops = ops
        self.loop_lines = loop_lines   # None: every line of line_files; else only these (file, line) pairs (loop headers)
        self.schedule = dict(schedule)
        self.pkg_dir = pkg_dir
        self.line_files = line_files
        self.call_files = call_files   # None: every call inside the package is a scheduling point
        self.n = len(ops)
        self.sems = [threading.Semaphore(0) for _ in ops]
        self.finished = [False] * self.n
        self.results = [None] * self.n
        self.count = 0
        self.points = []      # (index, running thread, mask of enabled threads)
        self.trace = [] if record_trace else None
        self.used = set()
        self.error = None

    # ---- trace function ------------------------------------------------------------------
    def _tracer(self, tid):
        pkg, line_files = self.pkg_dir, self.line_files

        loop_lines = self.loop_lines

        def local(frame, event, arg):
            if event == "line":
                if loop_lines is None or (frame.f_code.co_filename, frame.f_lineno) in loop_lines:
                    self.point(tid, frame)
            return local

        call_files = self.call_files

        def glob(frame, event, arg):
            if event != "call":
                return None
            fn = frame.f_code.co_filename
            if not fn.startswith(pkg):
                return None
            base = os.path.basename(fn)
            if call_files is None or base in call_files:
                self.point(tid, frame)
            if base in line_files:
                return local
            return None

        return glob

    def point(self, tid, frame):
        self.count += 1
        idx = self.count
        mask = sum(1 << i for i in range(self.n) if not self.finished[i])
        self.points.append((idx, tid, mask))
        if self.trace is not None:
            self.trace.append((idx, tid, os.path.basename(frame.f_code.co_filename), frame.f_lineno))
        to = self.schedule.get(idx)
        if to is None or to == tid:
            return
        self.used.add(idx)
        if self.finished[to]:
            self.error = "schedule switches to finished thread %d at point %d" % (to, idx)
            return
        self.sems[to].release()
        self.sems[tid].acquire()

    def _run(self, tid):
        self.sems[tid].acquire()
        sys.settrace(self._tracer(tid))
        try:
            self.results[tid] = ("ok", self.ops[tid]())
        except BaseException as e:  # noqa
            self.results[tid] = ("exc", "%s: %s" % (type(e).__name__, e))
        finally:
            sys.settrace(None)
            self.finished[tid] = True
            for j in range(self.n):
                if not self.finished[j]:
                    self.sems[j].release()
                    break
            else:
                self.done.set()

    def run(self, timeout=120):
        self.done = threading.Event()
        ths = [threading.Thread(target=self._run, args=(i,), daemon=True) for i in range(self.n)]
        for t in ths:
            t.start()
        self.sems[0].release()
        if not self.done.wait(timeout):
            self.error = "deadlock or timeout: finished=%s" % self.finished
            return self
        for t in ths:
            t.join(5)
        missing = set(self.schedule) - self.used - {i for i, tid in self.schedule.items() if False}
        # a scheduled switch to the thread that is already running is a no-op; anything else unused means divergence
        for i in sorted(set(self.schedule) - self.used):
            p = next((p for p in self.points if p[0] == i), None)
            if p is None or p[1] != self.schedule[i]:
                self.error = "replay diverged: scheduled switch at point %d was never taken (execution has %d points)" % (i, self.count)
                break
        return self


def loop_header_lines(paths):
    """(file, line) of every for/while statement in the given source files."""
    import ast

    out = set()
    for p in paths:
        try:
            tree = ast.parse(open(p, encoding="utf-8").read())
        except Exception:  # noqa
            continue
        for node in ast.walk(tree):
            if isinstance(node, (ast.For, ast.While)):
                out.add((p, node.lineno))
    return out


def run_schedule(make_ops, schedule, pkg_dir, line_files, record_trace=False, call_files=None, loop_lines=None):
    s = Scheduler(make_ops(), schedule, pkg_dir, line_files, record_trace, call_files, loop_lines).run()
    return {"results": s.results, "points": s.points, "count": s.count, "error": s.error, "trace": s.trace}
